#!/bin/bash
# usage: run_seed.sh <seed id> <property id> [tier]   -- applies seeded/<id>/patch.diff to /repo, runs the check
# with three seeds, always restores /repo. Prints one line per seed: DETECTED / missed.
ID="$1"; PID="$2"; TIER="${3:-quick}"
cd /repo || exit 2
if [ -n "$(git status --porcelain --untracked-files=no)" ]; then echo "/repo not clean"; exit 2; fi
git apply /verif/seeded/$ID/patch.diff || { echo "patch does not apply"; exit 3; }
trap 'git -C /repo checkout -- .' EXIT
cd /verif
for s in 0 1 2; do
  OUT=$(VERIF_SEED=$s bin/check $PID --tier $TIER 2>&1); RC=$?
  if echo "$OUT" | grep -q "^VIOLATION property=$PID"; then
    echo "$ID seed=$s DETECTED rc=$RC $(echo "$OUT" | grep -c '^VIOLATION') violation lines; first: $(echo "$OUT" | grep -m1 'clause=' | cut -c1-200)"
  else
    echo "$ID seed=$s missed rc=$RC $(echo "$OUT" | tail -1 | cut -c1-200)"
  fi
done
