#!/bin/bash
# usage: seed_sweep.sh [ids...]   For every seeded/<id>: scratch worktree of /repo (outside /repo and /verif), patch applied there,
# the property's quick check run against it with seeds 0,1,2 (VERIF_REPO), result written to seeded/<id>/detect.json. /repo is not touched.
cd /verif
IDS="$@"; [ -z "$IDS" ] && IDS=$(ls seeded)
for ID in $IDS; do
  PID=${ID%%-*}
  [ -f seeded/$ID/patch.diff ] || continue
  WT=/tmp/wt/sweep_$ID; OUT=/tmp/wt/sweep_out_$ID
  rm -rf "$WT" "$OUT"; git -C /repo worktree add -q --detach "$WT" HEAD || continue
  if ! git -C "$WT" apply /verif/seeded/$ID/patch.diff 2>/dev/null; then
    echo "{\"id\":\"$ID\",\"applies\":false}" > seeded/$ID/detect.json; echo "$ID patch does not apply to HEAD"
    git -C /repo worktree remove --force "$WT"; continue
  fi
  RES=""
  for s in ${SEEDS:-0 1 2}; do
    O=$(VERIF_REPO="$WT" VERIF_OUT_DIR="$OUT" VERIF_SEED=$s bin/check $PID --tier quick 2>&1); RC=$?
    N=$(echo "$O" | grep -c "^VIOLATION property=$PID")
    FIRST=$(echo "$O" | grep -m1 'clause=' | sed -E 's/ observed=.*//' | cut -c1-160 | tr '"' "'")
    RES="$RES{\"seed\":$s,\"exit\":$RC,\"violation_lines\":$N,\"first\":\"$FIRST\"},"
  done
  HEAD=$(git -C /repo rev-parse --short HEAD)
  echo "{\"id\":\"$ID\",\"applies\":true,\"repo_head\":\"$HEAD\",\"runs\":[${RES%,}]}" > seeded/$ID/detect.json
  echo "$ID $(grep -o '"violation_lines":[0-9]*' seeded/$ID/detect.json | tr '\n' ' ')"
  git -C /repo worktree remove --force "$WT"; rm -rf "$OUT"
done
