#!/bin/bash
# silence check: every quick check on seeds 0..3 from fresh processes
cd /verif
for s in 0 1 2 3; do for p in $(/venv/bin/python -c "import json;print(' '.join(c['property_id'] for c in json.load(open('MANIFEST.json'))['checks']))"); do
  OUT=$(VERIF_SEED=$s bin/check $p 2>&1); RC=$?
  echo "seed=$s $p rc=$RC $(echo "$OUT" | grep -c '^VIOLATION') violations $(echo "$OUT" | tail -1 | cut -c1-120)"
done; done
