#!/bin/bash
# runs every thorough check once, prints a one-line summary per property (evidence goes to VERIF_OUT_DIR if set)
cd "$(dirname "$0")/.."
for p in $(/venv/bin/python -c "import json;print(' '.join(c['property_id'] for c in json.load(open('MANIFEST.json'))['checks']))"); do
  S=$(date +%s); OUT=$(bin/check $p --tier thorough 2>&1); RC=$?; E=$(date +%s)
  echo "$p rc=$RC $((E-S))s $(echo "$OUT" | grep -c '^VIOLATION') violations | $(echo "$OUT" | tail -1 | cut -c1-150)"
  echo "$OUT" | grep -E "^VIOLATION|clause=|HARNESS" | head -6
done
