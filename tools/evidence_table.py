#!/usr/bin/env python3
"""Prints a markdown table of the figures in evidence/*.json (last run of every check)."""
import json, glob, os
HERE = os.path.dirname(os.path.dirname(os.path.abspath(__file__)))
print('| id | tier | work units | states | transitions | evaluations | distinct non-trivial outcomes | known findings witnessed | wall |')
print('|---|---|---|---|---|---|---|---|---|')
for f in sorted(glob.glob(os.path.join(HERE, 'evidence', 'C*.json'))):
    d = json.load(open(f)); c = d['coverage']
    print(f"| {d['property_id']} | {d['tier']} | {c.get('work_units')} | {c['states']} | {c['transitions']} | {c.get('evaluations')} | {c.get('distinct_nontrivial')} | "
          f"{len(c.get('known_findings_witnessed', []) or [])} | {d.get('wall_s')} s |")
