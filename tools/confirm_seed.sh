#!/bin/bash
# usage: confirm_seed.sh <src_dir with patch.diff demo.py notes.md> <seed id e.g. C02-m1> <property id>
# Confirms in a scratch worktree (outside /repo and /verif): demo passes clean, fails with the patch, and the
# repository's whole suite still passes with the patch. Writes /verif/seeded/<id>/{patch.diff,demo.py,notes.md,confirm.json}
SRC="$1"; ID="$2"; PID="$3"
WT=/tmp/wt/confirm_$ID
rm -rf "$WT"; git -C /repo worktree add -q --detach "$WT" HEAD || exit 2
cd "$WT"
run_demo() { PYTHONPATH="$WT" MPLBACKEND=Agg timeout 900 /venv/bin/python -W ignore "$SRC/demo.py" > "$1" 2>&1; echo $?; }
D0=$(run_demo /tmp/wt/confirm_$ID.clean.log)
if ! git apply "$SRC/patch.diff"; then echo "{\"id\":\"$ID\",\"error\":\"patch does not apply\"}" ; git -C /repo worktree remove --force "$WT"; exit 3; fi
D1=$(run_demo /tmp/wt/confirm_$ID.patched.log)
SUITE=$(PYTHONPATH="$WT" /venv/bin/python -m pytest -q -p no:cacheprovider -n 4 --timeout=900 2>&1 | tail -1)
cd /
git -C /repo worktree remove --force "$WT"
mkdir -p /verif/seeded/$ID
cp "$SRC/patch.diff" "$SRC/demo.py" /verif/seeded/$ID/
[ -f "$SRC/notes.md" ] && cp "$SRC/notes.md" /verif/seeded/$ID/
/venv/bin/python - "$ID" "$PID" "$D0" "$D1" "$SUITE" <<'P'
import json,sys
i,pid,d0,d1,suite=sys.argv[1:6]
ok = d0=='0' and d1=='1' and 'passed' in suite and 'failed' not in suite
json.dump(dict(id=i,property=pid,demo_exit_clean=int(d0),demo_exit_patched=int(d1),suite_with_patch=suite,confirmed=ok,
  base_commit=open('/repo/.git/HEAD').read().strip()), open(f'/verif/seeded/{i}/confirm.json','w'), indent=1)
print(i, 'confirmed' if ok else 'NOT CONFIRMED', d0, d1, suite)
P
rm -f /tmp/wt/confirm_$ID.clean.log /tmp/wt/confirm_$ID.patched.log
