import numpy as np, warnings
warnings.simplefilter('ignore')
from p04 import mk
from optiland import optimization
np.set_printoptions(precision=8, suppress=True, linewidth=200)
surfs=[(50,5,1.5),(-80,40,1.0)]
def prob(scaling=True, bounded=False):
    o=mk(surfs,stop=1,ap=('EPD',6.0))
    p=optimization.OptimizationProblem()
    p.add_operand('f2',target=60,weight=1,input_data={'optic':o})
    p.add_operand('rms_spot_size',target=0,weight=1,input_data={'optic':o,'surface_number':-1,'Hx':0,'Hy':0,'num_rays':3,'wavelength':0.55,'distribution':'hexapolar'})
    kw=dict(min_val=20,max_val=200) if bounded else {}
    p.add_variable(o,'radius',surface_number=1,apply_scaling=scaling,**kw)
    kw=dict(min_val=10,max_val=100) if bounded else {}
    p.add_variable(o,'thickness',surface_number=2,apply_scaling=scaling,**kw)
    return o,p
for cls,kw,b in [(optimization.OptimizerGeneric,dict(disp=False),False),(optimization.OptimizerGeneric,dict(disp=False),True),(optimization.LeastSquares,{},True),
               (optimization.DualAnnealing,dict(maxiter=30,disp=False),True),(optimization.DifferentialEvolution,dict(maxiter=5,disp=False,workers=1),True),(optimization.DifferentialEvolution,dict(maxiter=5,disp=False,workers=2),True)]:
    o,p=prob(bounded=b)
    f0=p.sum_squared(); x0=[v.value for v in p.variables]
    opt=cls(p); r=opt.optimize(**kw)
    xs=np.array([v.value for v in p.variables]); fa=p.sum_squared()
    print(cls.__name__,kw.get('workers'),'fun',np.ravel(r.fun)[0],'after',fa,'x',r.x,'state',xs,'start',f0, 'bounds',[v.bounds for v in p.variables])
    opt.undo(); print('   undo ->',[v.value for v in p.variables], x0)
# bounds scaling with apply_scaling False
o,p=prob(scaling=False,bounded=True); print('unscaled var value',[v.value for v in p.variables],'bounds',[v.bounds for v in p.variables])
