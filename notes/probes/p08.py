import numpy as np, warnings
warnings.simplefilter('ignore')
from p04 import mk
np.set_printoptions(precision=8, suppress=False, linewidth=200)
def welford(o, signed=True):
    p=o.paraxial
    ya,ua=[a.ravel() for a in p.marginal_ray()]; yb,ub=[a.ravel() for a in p.chief_ray()]
    n=o.n().astype(float).copy()
    if signed:
        s=1
        for k,sf in enumerate(o.surface_group.surfaces):
            if sf.is_reflective: s=-s
            n[k]*=s
    c=1/o.surface_group.radii
    N=len(n)
    S=np.zeros((N-2,5))
    H = n[1]*(yb[1]*ua[1]-ya[1]*ub[1])   # same as lib invariant
    for k in range(1,N-1):
        n0,n1=n[k-1],n[k]
        A=n0*(ya[k]*c[k]+ua[k-1]); Ab=n0*(yb[k]*c[k]+ub[k-1])
        d_un = ua[k]/n1-ua[k-1]/n0
        d_1n = 1/n1-1/n0
        S[k-1,0]=-A*A*ya[k]*d_un
        S[k-1,1]=-A*Ab*ya[k]*d_un
        S[k-1,2]=-Ab*Ab*ya[k]*d_un
        S[k-1,3]=-H*H*c[k]*d_1n
        S[k-1,4]=-(Ab/A)*(Ab*Ab*ya[k]*d_un + H*H*c[k]*d_1n) if A!=0 else np.nan
    return S, n, ua
for name,surfs,stop,obj in [('singlet_s1',[(50,5,1.5),(-80,40,1.0)],1,np.inf),('singlet_s2',[(50,5,1.5),(-80,40,1.0)],2,np.inf),
      ('trip',[(30,4,1.6),(-40,2,1.7),(np.inf,3,1.0),(25,30,1.0)],3,np.inf),('mirror',[(-100,-50,'mirror')],1,np.inf),
      ('catadiop',[(60,4,1.5),(-200,30,1.0),(-100,-20,'mirror')],1,np.inf)]:
    o=mk(surfs,obj=obj,stop=stop)
    S,n,ua=welford(o)
    lib=o.aberrations.seidels()
    TSC=o.aberrations.TSC()
    print(name,'lib S',lib); print('   welford', S.sum(0)); print('   TSC lib', TSC, ' welf', -S[:,0]/(2*n[-1]*ua[-1]))
    # real marginal ray error at small aperture: transverse error at paraxial focus
    o.image_solve()
    eps=0.05
    ya,ua_=o.paraxial.marginal_ray()
    o.trace_generic(0.,0.,0.,eps,0.55)
    yreal=o.surface_group.y[-1,0]
    print('   real TA/eps^3', yreal/eps**3, 'sum TSC', TSC.sum())
