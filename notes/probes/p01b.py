import numpy as np, json, warnings
warnings.simplefilter('ignore')
from optiland.optic import Optic
from optiland.materials import IdealMaterial
from p01 import build
o=build()
o.set_radius(np.inf, 1)
r=o.trace_generic(0.,0.,0.,0.5,0.55)
print('inf radius standard geom:', o.surface_group.y.ravel(), o.paraxial.f2())
# pickups chain
o=build(th=(np.inf,5,3,4,20), idx=(1,1.5,1,1.6,1), radii=(np.inf,50,-50,30,np.inf))
o.pickups.add(1,'radius',2,scale=-1)      # r2 = -r1
o.pickups.add(2,'radius',3,scale=2, offset=1)  # r3 = 2 r2 + 1
o.set_radius(80,1); o.update(); print(o.surface_group.radii)
# adverse order
o=build(th=(np.inf,5,3,4,20), idx=(1,1.5,1,1.6,1), radii=(np.inf,50,-50,30,np.inf))
o.pickups.add(2,'radius',3,scale=2, offset=1)
o.pickups.add(1,'radius',2,scale=-1)
o.set_radius(80,1); o.update(); print(o.surface_group.radii, 'expect r3=2*r2+1')
# thickness pickup
o=build(th=(np.inf,5,3,4,20), idx=(1,1.5,1,1.6,1), radii=(np.inf,50,-50,30,np.inf))
o.pickups.add(1,'thickness',2,scale=2)
print(o.surface_group.positions.ravel())
o.set_thickness(6,1); o.update(); print(o.surface_group.positions.ravel())
# conic pickup onto plane
try:
    o.pickups.add(1,'conic',4); print('conic pickup on plane ok')
except Exception as e: print('conic on plane ERR', repr(e))
try:
    o.set_conic(-1, 4)
    print('set_conic on plane OK', o.surface_group.conic)
    o.trace_generic(0.,0.,0.,0.5,0.55); print(o.surface_group.y.ravel())
except Exception as e: print('ERR', repr(e))
# stop flags
o=build(stop=1); o.add_surface(index=2, is_stop=True, thickness=1, material=IdealMaterial(1.0))
print([s.is_stop for s in o.surface_group.surfaces], o.surface_group.positions.ravel())
# surface types with tilt
o=Optic()
o.add_surface(index=0, thickness=np.inf)
o.add_surface(index=1, thickness=5, radius=50, material=IdealMaterial(1.5), is_stop=True, surface_type='even_asphere', coefficients=[1e-4,1e-6], rx=0.1, dy=0.5)
o.add_surface(index=2, thickness=5, radius=-50, surface_type='polynomial', coefficients=[[0,0,1e-3],[0,1e-3,0]], ry=0.05)
o.add_surface(index=3, thickness=5, radius=-50, surface_type='chebyshev', coefficients=[[0,0,1e-3],[0,1e-3,0]], norm_x=10, norm_y=10)
o.add_surface(index=4)
print(o.surface_group.positions.ravel())
o.set_asphere_coeff(2e-4,1,0); print(o.surface_group.surfaces[1].geometry.c)
