import numpy as np, warnings
warnings.simplefilter('ignore')
from optiland.optic import Optic
from optiland.materials import IdealMaterial
from optiland.wavefront import Wavefront, OPD
from optiland.psf import FFTPSF
np.set_printoptions(precision=6, suppress=True, linewidth=200)
def parab(R=-100., epd=80.):
    o=Optic()
    o.add_surface(index=0, thickness=np.inf)
    o.add_surface(index=1, radius=R, conic=-1, thickness=R/2, material='mirror', is_stop=True)
    o.add_surface(index=2)
    o.set_aperture('EPD',epd); o.set_field_type('angle'); o.add_field(0); o.add_wavelength(0.55,is_primary=True)
    return o
o=parab()
r=o.trace(0,0,0.55,num_rays=6,distribution='hexapolar')
print('max |y| at image', np.nanmax(np.hypot(r.x,r.y)), 'opd spread', np.ptp(r.opd), r.opd[:3])
w=Wavefront(o,[(0,0)],[0.55],num_rays=6)
print('wavefront max', np.nanmax(np.abs(w.data[0][0][0])))
p=FFTPSF(o,(0,0),0.55,num_rays=64,grid_size=256); print('strehl',p.strehl_ratio(), p.psf.max())
# plano-hyperbolic singlet: plane first, hyperbola second with k=-n^2, object at infinity
def planohyp(n=1.5,f=100.,t=10.,epd=60.):
    o=Optic()
    R=-(n-1)*f
    o.add_surface(index=0, thickness=np.inf)
    o.add_surface(index=1, thickness=t, material=IdealMaterial(n), is_stop=True)
    o.add_surface(index=2, radius=R, conic=-n**2, thickness=f)
    o.add_surface(index=3)
    o.set_aperture('EPD',epd); o.set_field_type('angle'); o.add_field(0); o.add_wavelength(0.55,is_primary=True)
    return o
o=planohyp()
r=o.trace(0,0,0.55,num_rays=6,distribution='hexapolar')
print('planohyp max r', np.nanmax(np.hypot(r.x,r.y)), 'opd ptp', np.ptp(r.opd))
w=Wavefront(o,[(0,0)],[0.55],num_rays=6); print('wf', np.nanmax(np.abs(w.data[0][0][0])))
p=FFTPSF(o,(0,0),0.55,num_rays=64,grid_size=256); print('strehl',p.strehl_ratio())
# ellipsoid mirror: object at one focus, image at other. finite object
def ellipse(a=100., c=60., na=0.3):
    # ellipse foci at distance a-c and a+c from vertex. R = b^2/a, k = -e^2
    b2=a*a-c*c; R=-b2/a; k=-(c/a)**2
    o=Optic()
    o.add_surface(index=0, thickness=(a-c))
    o.add_surface(index=1, radius=R, conic=k, thickness=-(a+c), material='mirror', is_stop=True)
    o.add_surface(index=2)
    o.set_aperture('objectNA',na); o.set_field_type('object_height'); o.add_field(0); o.add_wavelength(0.55,is_primary=True)
    return o
o=ellipse()
r=o.trace(0,0,0.55,num_rays=6,distribution='hexapolar')
print('ellipse max r', np.nanmax(np.hypot(r.x,r.y)), 'opd ptp', np.ptp(r.opd), o.surface_group.positions.ravel())
w=Wavefront(o,[(0,0)],[0.55],num_rays=6); print('wf', np.nanmax(np.abs(w.data[0][0][0])))
p=FFTPSF(o,(0,0),0.55,num_rays=64,grid_size=256); print('strehl',p.strehl_ratio())
