import numpy as np, warnings
warnings.simplefilter('ignore')
from optiland.optic import Optic
from optiland.materials import IdealMaterial
from p02 import snell_check
Py=np.linspace(-1,1,11); Px=np.linspace(-.5,.5,11)
o=Optic()
o.add_surface(index=0, thickness=np.inf)
o.add_surface(index=1, thickness=5, radius=50, material=IdealMaterial(1.5), is_stop=True, surface_type='even_asphere', coefficients=[1e-4,1e-6], rx=0.1, dy=0.5)
o.add_surface(index=2, thickness=5, radius=-50, surface_type='polynomial', coefficients=[[0,0,1e-3],[0,1e-3,0]], ry=0.05)
o.add_surface(index=3, thickness=-10, radius=-50, conic=-2.0, material='mirror', rx=-0.05)
o.add_surface(index=4)
o.set_aperture('EPD',4); o.set_field_type('angle'); o.add_field(0); o.add_field(3); o.add_wavelength(0.55,is_primary=True)
print(o.surface_group.positions.ravel())
for r in snell_check(o, np.zeros(11), np.full(11,1.0), Px, Py, 0.55): print(r)
print(o.surface_group.y[:,0], o.surface_group.z[:,0], o.surface_group.opd[:,0], o.surface_group.N[:,0])
