import numpy as np, warnings
warnings.simplefilter('ignore')
from p04 import mk
from optiland.wavefront import Wavefront
from optiland.distribution import create_distribution
np.set_printoptions(precision=8, suppress=True, linewidth=200)

def oracle_opd(o, Hy, w, Px, Py):
    """independent OPD (waves) for pupil points."""
    sg=o.surface_group
    def run(px,py):
        px=np.atleast_1d(np.asarray(px,float)).copy(); py=np.atleast_1d(np.asarray(py,float)).copy()
        o.trace_generic(np.zeros_like(px), np.full_like(px,Hy), px, py, w)
        P=np.stack([sg.x,sg.y,sg.z],-1)   # (S, n, 3)
        D=np.stack([sg.L,sg.M,sg.N],-1)
        return P.copy(),D.copy()
    Pc,Dc=run(0.,0.)
    P,D=run(Px,Py)
    nidx=[s.material_post.n(w) for s in sg.surfaces]
    def opl(P,D):
        tot=np.zeros(P.shape[1])
        for k in range(1,P.shape[0]):
            seg=np.linalg.norm(P[k]-P[k-1],axis=1)
            tot+=nidx[k-1]*seg
        # starting wavefront: infinite object => plane wavefront normal to D[0] through origin ref
        if o.object_surface.is_infinite:
            tot+= nidx[0]*np.sum(P[0]*D[0],axis=1)
        return tot
    xc=Pc[-1,0]; 
    pupil_z=o.paraxial.XPL()+sg.positions[-1,0]
    R=np.linalg.norm(xc-np.array([0,0,pupil_z]))
    def to_sphere(P,D):
        # travel backward from image point along -D to sphere |X-xc|=R
        p=P[-1]-xc; d=-D[-1]
        b=2*np.sum(p*d,1); c=np.sum(p*p,1)-R**2
        disc=b*b-4*c
        t1=(-b-np.sqrt(disc))/2; t2=(-b+np.sqrt(disc))/2
        t=np.where(t1>=0,t1,t2)
        return t
    n_img=nidx[-2]
    tot=opl(P,D)-n_img*to_sphere(P,D)
    totc=opl(Pc,Dc)-n_img*to_sphere(Pc,Dc)
    return (totc-tot)/(w*1e-3)

for name,surfs,stop,obj,ft in [('s1_inf',[(50,5,1.5),(-80,40,1.0)],1,np.inf,'angle'),('s2_inf',[(50,5,1.5),(-80,48,1.0)],2,np.inf,'angle'),
        ('s2_fin',[(50,5,1.5),(-80,70,1.0)],2,200.,'object_height'),('s1_fin',[(50,5,1.5),(-80,70,1.0)],1,200.,'object_height')]:
    o=mk(surfs,obj=obj,stop=stop,ftype=ft,fields=(0,5))
    d=create_distribution('hexapolar'); d.generate_points(3)
    for Hy in (0.,0.7,1.0):
        wf=Wavefront(o,[(0,Hy)],[0.55],3,'hexapolar')
        lib=wf.data[0][0][0]
        orc=oracle_opd(o,Hy,0.55,d.x,d.y)
        print(name,Hy,'max|lib|',np.max(np.abs(lib)),'max diff',np.max(np.abs(lib-orc)))
