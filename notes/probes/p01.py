import numpy as np, json
from optiland.optic import Optic
from optiland.materials import IdealMaterial

def build(th=(np.inf, 5, 3, 20), idx=(1.0,1.5,1.0,1.0), radii=(np.inf, 50, -50, np.inf), stop=1):
    o=Optic()
    n=len(th)
    for k in range(n):
        kw={}
        if np.isfinite(radii[k]): kw['radius']=radii[k]
        o.add_surface(index=k, thickness=th[k], material=IdealMaterial(idx[k]), is_stop=(k==stop), **kw)
    o.set_aperture('EPD', 5); o.set_field_type('angle'); o.add_field(0); o.add_field(5); o.add_wavelength(0.55, is_primary=True)
    return o
o=build()
print(o.surface_group.positions.ravel(), type(o.surface_group.surfaces[2].geometry.cs.z))
o.set_thickness(7.0, 1)
print(o.surface_group.positions.ravel(), type(o.surface_group.surfaces[2].geometry.cs.z), o.surface_group.surfaces[2].geometry.cs.z)
try:
    json.dumps(o.to_dict()); print('json ok')
except Exception as e: print('json fail', e)
# set_thickness on object surface (index 0) finite
o=build(th=(100,5,3,20))
print(o.surface_group.positions.ravel())
o.set_thickness(50,0); print(o.surface_group.positions.ravel())
# infinite object then set thickness of surf 1
o=build(); o.set_thickness(2.0, 2); print(o.surface_group.positions.ravel())
# set_thickness(…,0) with infinite object
o=build(); 
try:
    o.set_thickness(100.0, 0); print(o.surface_group.positions.ravel())
except Exception as e: print('ERR', e)
# set_index
o=build(); o.set_index(1.7,1); s=o.surface_group.surfaces; print(s[1].material_post.n(0.5), s[2].material_pre.n(0.5), o.n())
# solve on interior surface
o=build(th=(np.inf,5,3,20,10), idx=(1,1.5,1,1.6,1), radii=(np.inf,50,-50,30,np.inf))
print('ya before', o.paraxial.marginal_ray()[0].ravel())
o.solves.add('marginal_ray_height', 3, 1.0)
print('ya after', o.paraxial.marginal_ray()[0].ravel(), o.surface_group.positions.ravel())
o.solves.add('marginal_ray_height', 4, 0.0)
print('ya after img', o.paraxial.marginal_ray()[0].ravel(), o.surface_group.positions.ravel())
