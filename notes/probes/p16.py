import numpy as np, warnings
warnings.simplefilter('ignore')
from optiland.optic import Optic
from optiland.materials import IdealMaterial
from optiland.physical_apertures import RadialAperture
from optiland.coatings import SimpleCoating, FresnelCoating
from optiland.jones import JonesFresnel
from optiland.rays import RealRays, PolarizationState, create_polarization
np.set_printoptions(precision=6, suppress=True, linewidth=200)
o=Optic()
o.add_surface(index=0,thickness=np.inf)
o.add_surface(index=1,thickness=5,radius=50,material=IdealMaterial(1.5,1e-5),is_stop=True,aperture=RadialAperture(3.0,0.5),coating=SimpleCoating(0.9,0.05))
o.add_surface(index=2,thickness=20,radius=-50,aperture=RadialAperture(2.0))
o.add_surface(index=3,thickness=-15,radius=-100,material='mirror',coating=SimpleCoating(0.1,0.8))
o.add_surface(index=4)
o.set_aperture('EPD',8); o.set_field_type('angle'); o.add_field(0); o.add_field(5); o.add_wavelength(0.55,is_primary=True)
Py=np.linspace(-1,1,9)
r=o.trace_generic(np.zeros(9),np.zeros(9),np.zeros(9),Py,0.55)
I=o.surface_group.intensity; print(I)
sg=o.surface_group
P=np.stack([sg.x,sg.y,sg.z],-1); d=np.linalg.norm(P[2]-P[1],axis=1)
print('expected s2 transmission from s1:', np.exp(-4*np.pi*1e-5*d*1e3/0.55))
# Fresnel
for n1,n2 in [(1.0,1.5),(1.5,1.0),(1.0,4.0)]:
    th=np.linspace(0,min(np.pi/2-1e-3, (np.arcsin(n2/n1)-1e-3) if n2<n1 else 10),7)
    rays=RealRays(np.zeros(7),np.zeros(7),np.zeros(7),np.zeros(7),np.sin(th),np.cos(th),np.ones(7),np.full(7,0.55))
    J=JonesFresnel(IdealMaterial(n1),IdealMaterial(n2))
    Jr=J.calculate_matrix(rays,reflect=True,aoi=th); Jt=J.calculate_matrix(rays,reflect=False,aoi=th)
    ct=np.sqrt(1-(n1/n2*np.sin(th))**2); f=n2*ct/(n1*np.cos(th))
    Rs=np.abs(Jr[:,0,0])**2; Rp=np.abs(Jr[:,1,1])**2; Ts=f*np.abs(Jt[:,0,0])**2; Tp=f*np.abs(Jt[:,1,1])**2
    print(n1,n2,'R+T s',np.max(np.abs(Rs+Ts-1)),'p',np.max(np.abs(Rp+Tp-1)),'normal R',Rs[0],Rp[0],((n1-n2)/(n1+n2))**2)
# polarized trace: intensity preserved without coatings
o2=Optic()
o2.add_surface(index=0,thickness=np.inf)
o2.add_surface(index=1,thickness=5,radius=30,material=IdealMaterial(1.5),is_stop=True)
o2.add_surface(index=2,thickness=20,radius=-30)
o2.add_surface(index=3)
o2.set_aperture('EPD',10); o2.set_field_type('angle'); o2.add_field(0); o2.add_field(10); o2.add_wavelength(0.55,is_primary=True)
for pol in ['H','V','L+45','RCP','unpolarized']:
    o2.set_polarization(create_polarization(pol))
    r=o2.trace(0,1,0.55,num_rays=2,distribution='hexapolar')
    k=np.stack([r.L,r.M,r.N],1)
    E0=r._get_3d_electric_field(create_polarization('H' if pol=='unpolarized' else pol)); E1=r.get_output_field(E0)
    print(pol,'I range',r.i.min(),r.i.max(),'transverse',np.max(np.abs(np.sum(E1*k,1))))
o2.surface_group.set_fresnel_coatings()
res={}
for pol in ['H','V','L+45','L-45','RCP','LCP','unpolarized']:
    o2.set_polarization(create_polarization(pol)); r=o2.trace(0,1,0.55,num_rays=2,distribution='hexapolar'); res[pol]=r.i.copy()
print('unpol vs mean(H,V)',np.max(np.abs(res['unpolarized']-(res['H']+res['V'])/2)), 'mean(L+,L-)',np.max(np.abs(res['unpolarized']-(res['L+45']+res['L-45'])/2)),'mean(R,L)',np.max(np.abs(res['unpolarized']-(res['RCP']+res['LCP'])/2)), res['unpolarized'][:3])
