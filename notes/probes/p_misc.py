import numpy as np, warnings, time, copy
warnings.simplefilter('ignore')
import matplotlib; matplotlib.use('Agg')
from p04 import mk
from p06 import parab
from optiland.mtf import FFTMTF
np.set_printoptions(precision=6, suppress=True, linewidth=200)
# timing
o=mk([(50,5,1.5),(-80,40,1.0)],stop=1,ap=('EPD',6.0))
t=time.time()
for _ in range(200): o.trace_generic(np.zeros(13),np.ones(13),np.zeros(13),np.linspace(-1,1,13),0.55)
print('trace_generic 13 rays: %.2f ms'%((time.time()-t)/200*1e3))
t=time.time()
for _ in range(50): o.paraxial.chief_ray()
print('chief_ray: %.2f ms'%((time.time()-t)/50*1e3))
t=time.time(); o2=copy.deepcopy(o); print('deepcopy %.2f ms'%((time.time()-t)*1e3), o2.paraxial.optic is o2)
# perfect MTF
op=parab(epd=20.)
for nr,gs in [(32,128),(64,256),(64,512)]:
    mp=FFTMTF(op,fields=[(0,0)],num_rays=nr,grid_size=gs); tt=mp.mtf[0][0]; k=np.arange(len(tt))
    for cut in (nr-1,nr):
        ratio=np.clip(k/cut,0,1); phi=np.arccos(ratio); dl=2/np.pi*(phi-np.cos(phi)*np.sin(phi))
        print(nr,gs,'cut',cut,'max dev',np.max(np.abs(tt-dl)))
# scale system
o=mk([(50,5,1.5),(-80,40,1.0)],stop=2,ap=('EPD',6.0)); 
o.trace_generic(0.,1.,0.,.8,0.55); y0=o.surface_group.y[:,0].copy(); f0=o.paraxial.f2(); S0=o.aberrations.seidels()
o.scale_system(3.0); o.trace_generic(0.,1.,0.,.8,0.55); y1=o.surface_group.y[:,0].copy(); print('scale', y1[1:]/y0[1:], o.paraxial.f2()/f0, o.aberrations.seidels()/S0, o.surface_group.positions.ravel())
# convergence
o=mk([(50,5,1.5),(-80,40,1.0)],stop=2,ap=('EPD',6.0)); ya,ua=o.paraxial.marginal_ray(); yb,ub=o.paraxial.chief_ray()
for eps in (1e-1,1e-2,1e-3):
    o.trace_generic(0.,0.,0.,eps,0.55); e1=np.max(np.abs(o.surface_group.y[1:,0]/eps-ya.ravel()[1:]))
    o.trace_generic(0.,eps,0.,0.,0.55); e2=np.max(np.abs(o.surface_group.y[1:,0]/eps-yb.ravel()[1:]))
    print(eps,e1,e2)
# scipy rng determinism
from scipy import optimize
def f(x): return (x[0]-1)**2+(x[1]+2)**2
r=[]
for _ in range(2):
    np.random.seed(5); r.append(optimize.differential_evolution(f,[(-5,5),(-5,5)],maxiter=3,polish=False).x)
print('DE deterministic under np.random.seed:', np.array_equal(r[0],r[1]))
r=[]
for _ in range(2):
    np.random.seed(5); r.append(optimize.dual_annealing(f,[(-5,5),(-5,5)],maxiter=5).x)
print('DA deterministic under np.random.seed:', np.array_equal(r[0],r[1]))
