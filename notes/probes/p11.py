import numpy as np, warnings
warnings.simplefilter('ignore')
import matplotlib; matplotlib.use('Agg')
from p04 import mk
from optiland.psf import FFTPSF
from optiland.mtf import FFTMTF, GeometricMTF
from optiland.physical_apertures import RadialAperture
np.set_printoptions(precision=6, suppress=True, linewidth=200)
surfs=[(50,5,1.5),(-80,40,1.0)]
o=mk(surfs,stop=1,ap=('EPD',6.0)); o.image_solve()
for nr,gs in [(32,64),(32,128),(33,64),(64,256),(17,64)]:
    p=FFTPSF(o,(0,0),0.55,num_rays=nr,grid_size=gs)
    P=p.pupils[0]
    print(nr,gs,'shape',p.psf.shape,'min',p.psf.min(),'strehl',p.strehl_ratio(),'max',p.psf.max(),'energy',p.psf.sum(),'argmax',np.unravel_index(np.argmax(p.psf),p.psf.shape))
# perfect system: paraboloid
from p06 import parab
op=parab(epd=20.)
for nr,gs in [(32,64),(33,64),(32,65)]:
    p=FFTPSF(op,(0,0),0.55,num_rays=nr,grid_size=gs); print('parab',nr,gs,p.psf.shape,'strehl',p.strehl_ratio(),'max',p.psf.max())
# vignetted rays by aperture
o2=mk(surfs,stop=1,ap=('EPD',6.0)); o2.image_solve()
o2.surface_group.surfaces[2].aperture=RadialAperture(r_max=2.0)
p=FFTPSF(op,(0,0),0.55,num_rays=32,grid_size=128)
op.surface_group.surfaces[1].aperture=RadialAperture(r_max=8.0)
p2=FFTPSF(op,(0,0),0.55,num_rays=32,grid_size=128)
print('parab clipped strehl',p2.strehl_ratio(),'max',p2.psf.max(), 'unclipped', p.strehl_ratio())
# MTF
m=FFTMTF(o,fields=[(0,0)],num_rays=32,grid_size=128)
t=m.mtf[0][0]; print('mtf0',t[0],'range',t.min(),t.max(),'len',len(t), 'max_freq',m.max_freq,'units dx',m._get_mtf_units(),'FNO',m.FNO)
mp=FFTMTF(op,fields=[(0,0)],num_rays=32,grid_size=128)
t=mp.mtf[0][0]; k=np.arange(len(t)); 
ratio=np.clip(k/32,0,1); phi=np.arccos(ratio); dl=2/np.pi*(phi-np.cos(phi)*np.sin(phi))
print('perfect mtf vs ideal (index-based cutoff at num_rays)', np.max(np.abs(t-dl)))
print(' index of first ~zero', np.argmax(t<1e-3), ' cutoff index by reported freq axis', mp.max_freq/mp._get_mtf_units())
g=GeometricMTF(o,fields=[(0,0)],num_rays=32)
print('geo', g.mtf[0][0][:3], np.max(g.mtf[0][0]-g.diff_limited_mtf), g.freq[-1], g.max_freq)
