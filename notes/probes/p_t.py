import numpy as np, warnings, time
warnings.simplefilter('ignore')
from p04 import mk
from optiland.psf import FFTPSF
from optiland.zernike import ZernikeFit
from optiland.distribution import create_distribution
from scipy import optimize
o=mk([(50,5,1.5),(-80,40,1.0)],stop=1,ap=('EPD',6.0)); o.image_solve()
t=time.time(); 
for _ in range(10): FFTPSF(o,(0,0),0.55,num_rays=32,grid_size=64)
print('FFTPSF(32,64) ms', (time.time()-t)/10*1e3)
t=time.time(); FFTPSF(o,(0,0),0.55,num_rays=64,grid_size=256); print('FFTPSF(64,256) ms',(time.time()-t)*1e3)
d=create_distribution('hexapolar'); d.generate_points(6)
z=np.hypot(d.x,d.y)**2
t=time.time(); ZernikeFit(d.x,d.y,z,'fringe',37); print('fit37 s', time.time()-t)
# map-like workers
def f(x): return (x[0]-1)**2+(x[1]+2)**2
calls=[]
def mymap(func, it):
    xs=list(it); calls.append(len(xs)); return [func(x) for x in reversed(xs)][::-1]
np.random.seed(1); r=optimize.differential_evolution(f,[(-5,5),(-5,5)],maxiter=2,workers=mymap,polish=False,updating='deferred'); print('map-like ok', r.x, calls[:3])
