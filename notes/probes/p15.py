import numpy as np, warnings, json
warnings.simplefilter('ignore')
from p04 import mk
from optiland.tolerancing import *
from optiland.tolerancing.monte_carlo import MonteCarlo
np.set_printoptions(precision=8, suppress=True, linewidth=200)
surfs=[(50,5,1.5),(-80,40,1.0)]
def snap(o): return json.dumps(o.to_dict(), default=lambda x: np.asarray(x).tolist(), sort_keys=True)
def setup(comp=False):
    o=mk(surfs,stop=1,ap=('EPD',6.0)); o.image_solve()
    t=Tolerancing(o)
    t.add_operand('f2',{'optic':o}); t.add_operand('rms_spot_size',{'optic':o,'surface_number':-1,'Hx':0,'Hy':0,'num_rays':3,'wavelength':0.55,'distribution':'hexapolar'})
    return o,t
if __name__=='__main__':
    o,t=setup(); s0=snap(o)
    t.add_perturbation('radius',RangeSampler(49,51,3),surface_number=1)
    t.add_perturbation('thickness',RangeSampler(4.9,5.1,3),surface_number=1)
    t.add_perturbation('tilt',RangeSampler(-0.01,0.01,3),surface_number=2,axis='x')
    sa=SensitivityAnalysis(t); sa.run(); df=sa.get_results(); print(df.to_string())
    print('lens restored after SA:', snap(o)==s0)
    o,t=setup(); s0=snap(o)
    t.add_perturbation('radius',DistributionSampler('normal',seed=3,loc=50,scale=0.1),surface_number=1)
    t.add_perturbation('index',DistributionSampler('uniform',low=1.49,high=1.51),surface_number=1,wavelength=0.55)
    t.add_compensator('thickness',surface_number=2)
    mc=MonteCarlo(t); mc.run(3); print(mc.get_results().to_string()); print('restored after MC run:', snap(o)==s0); t.reset(); print('after reset:', snap(o)==s0)
    d0=json.loads(s0); d1=json.loads(snap(o))
    for k in range(4):
        if d0['surface_group']['surfaces'][k]!=d1['surface_group']['surfaces'][k]: print(k, d0['surface_group']['surfaces'][k], d1['surface_group']['surfaces'][k])
