import numpy as np, warnings
warnings.simplefilter('ignore')
from p04 import mk
np.set_printoptions(precision=6, suppress=True, linewidth=200)
def ref_trace(surfs, obj, y0, u0, zstart, img_z):
    """independent paraxial trace with signed indices. returns y,u at each surface (u after), incl. image"""
    n=1.0; z=zstart; y=y0; u=u0; zs=0.0
    ys=[];us=[]
    pos=[0.0]
    for (R,t,nn) in surfs[:-1]: pos.append(pos[-1]+t)
    for k,(R,t,nn) in enumerate(surfs):
        y = y + u*(pos[k]-z); z=pos[k]
        n2 = -n if nn=='mirror' else nn*np.sign(n)
        c = 0 if not np.isfinite(R) else 1/R
        u = (n*u - y*c*(n2-n))/n2
        n=n2
        ys.append(y); us.append(u)
    y = y + u*(img_z - z); ys.append(y); us.append(u)
    return np.array(ys), np.array(us)

cases = {'pos_s1':([(50,5,1.5),(-50,40,1.0)],1), 'pos_s2':([(50,5,1.5),(-50,40,1.0)],2),
 'trip_s3':([(30,4,1.6),(-40,2,1.7),(np.inf,3,1.0),(25,30,1.0)],3),
 'cass':([(-100,-30,'mirror'),(-60,50,'mirror')],1), 'cass2':([(-100,-30,'mirror'),(-60,50,'mirror')],2),
 'mirror':([(-100,-40,'mirror')],1)}
for name,(surfs,stop) in cases.items():
  for obj in (np.inf, 200.0):
    ft = 'angle' if np.isinf(obj) else 'object_height'
    o=mk(surfs, obj=obj, stop=stop, ftype=ft, fields=(0,5))
    p=o.paraxial
    pos=o.surface_group.positions.ravel()
    ya,ua=p.marginal_ray(); yb,ub=p.chief_ray()
    n=o.n()
    # signed n
    sgn=np.ones_like(n); s=1
    for k,sf in enumerate(o.surface_group.surfaces):
        if sf.is_reflective: s=-s
        sgn[k]=s
    inv = (yb*ua - ya*ub).ravel()*n*sgn
    print(name, obj, 'EPL',p.EPL(),'EPD',p.EPD(),'XPL',p.XPL(),'XPD',p.XPD(),'mag',p.magnification() if np.isfinite(obj) else None, 'inv()',p.invariant())
    print('   inv per surf', inv)
    # check chief ray passes through stop center, marginal passes EP edge
    print('   yb at stop', yb.ravel()[stop], 'ya', ya.ravel(), 'ub0', ub.ravel()[0])
