import numpy as np, warnings
warnings.simplefilter('ignore')
from p04 import mk
np.set_printoptions(precision=6, suppress=True, linewidth=200)
surfs=[(50,5,1.5),(-50,40,1.0)]
o=mk(surfs,obj=200.0,stop=2,ftype='object_height',fields=(0,5))
yb,ub=o.paraxial.chief_ray()
print('chief',yb.ravel(),ub.ravel())
# real chief ray with tiny field
eps=1e-4
r=o.trace_generic(0.,eps,0.,0.,0.55)
print('real/eps', o.surface_group.y.ravel()/eps, (o.surface_group.M/o.surface_group.N).ravel()/eps)
# paraxial.trace(Hy=1,Py=0)
o.paraxial.trace(1.0,0.0,0.55); print('paraxial.trace', o.surface_group.y.ravel(), o.surface_group.u.ravel())
# angle field type with finite object
o=mk(surfs,obj=200.0,stop=2,ftype='angle',fields=(0,5))
yb,ub=o.paraxial.chief_ray(); print('angle finite chief',yb.ravel(),ub.ravel(), np.tan(np.radians(5)))
r=o.trace_generic(0.,eps,0.,0.,0.55)
print('real/eps', o.surface_group.y.ravel()/eps, (o.surface_group.M/o.surface_group.N).ravel()/eps*1/np.radians(5)*np.tan(np.radians(5)))
