import numpy as np, warnings, yaml, os, time, collections
warnings.simplefilter('ignore')
import pandas as pd
from optiland.materials import MaterialFile, Material
db='/tmp/scratch/optiland_src/database'
df=pd.read_csv(db+'/catalog_nk.csv')
print(len(df), df.columns.tolist())
types=collections.Counter(); errs=collections.Counter(); examples={}
t0=time.time()
for i,row in df.iterrows():
    fn=os.path.join(db,'data-nk',row['filename'])
    try:
        with open(fn) as f: y=yaml.safe_load(f)
    except Exception as e:
        errs['yaml:'+type(e).__name__]+=1; examples.setdefault('yaml',fn); continue
    ts=tuple(d['type'] for d in y['DATA'])
    types[ts]+=1
    try:
        m=MaterialFile(fn)
    except Exception as e:
        errs['load:'+type(e).__name__+':'+str(e)[:40]]+=1; examples.setdefault('load:'+str(e)[:40],fn); continue
    lo,hi=row['min_wavelength'],row['max_wavelength']
    for w in (lo,(lo+hi)/2,hi):
        try:
            n=m.n(w)
            if not np.isfinite(n): errs['nonfinite n '+ts[0]]+=1; examples.setdefault('nonfinite '+ts[0],(fn,w))
        except Exception as e:
            errs['n:'+ts[0]+':'+type(e).__name__+':'+str(e)[:40]]+=1; examples.setdefault('n:'+ts[0]+str(e)[:30],(fn,w))
print(time.time()-t0)
for k,v in sorted(types.items(),key=lambda x:-x[1]): print(v,k)
print(errs); 
for k,v in examples.items(): print(k,v)
