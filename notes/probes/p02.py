import numpy as np, warnings
warnings.simplefilter('ignore')
from optiland.optic import Optic
from optiland.materials import IdealMaterial
from optiland.rays import RealRays

def snell_check(o, Hx, Hy, Px, Py, w):
    rays = o.trace_generic(Hx, Hy, Px, Py, w)
    sg = o.surface_group
    X,Y,Z,L,M,N,OPD = sg.x, sg.y, sg.z, sg.L, sg.M, sg.N, sg.opd
    res=[]
    for k in range(1, sg.num_surfaces):
        s = sg.surfaces[k]
        # localize points and directions using independent math
        cs = s.geometry.cs
        def Rx(a): c,s_=np.cos(a),np.sin(a); return np.array([[1,0,0],[0,c,-s_],[0,s_,c]])
        def Ry(a): c,s_=np.cos(a),np.sin(a); return np.array([[c,0,s_],[0,1,0],[-s_,0,c]])
        def Rz(a): c,s_=np.cos(a),np.sin(a); return np.array([[c,-s_,0],[s_,c,0],[0,0,1]])
        # globalize: p_g = Rx Ry Rz p_l + t  (as rays.rotate_z then y then x then translate)
        Rm = Rx(cs.rx) @ Ry(cs.ry) @ Rz(cs.rz)
        t = np.array([cs.x, cs.y, float(np.ravel(cs.z)[0])])
        P = np.stack([X[k],Y[k],Z[k]],1); Pl = (P - t) @ Rm  # = Rm^T (p - t)
        d_out = np.stack([L[k],M[k],N[k]],1) @ Rm
        d_in = np.stack([L[k-1],M[k-1],N[k-1]],1) @ Rm
        g = s.geometry
        sag = g.sag(Pl[:,0], Pl[:,1])
        on = np.abs(Pl[:,2]-sag)
        # normal by numerical gradient of sag
        h=1e-6
        fx=(g.sag(Pl[:,0]+h,Pl[:,1])-g.sag(Pl[:,0]-h,Pl[:,1]))/(2*h)
        fy=(g.sag(Pl[:,0],Pl[:,1]+h)-g.sag(Pl[:,0],Pl[:,1]-h))/(2*h)
        nrm=np.stack([-fx,-fy,np.ones_like(fx)],1); nrm/=np.linalg.norm(nrm,axis=1)[:,None]
        n1 = s.material_pre.n(w); n2 = s.material_post.n(w)
        if s.is_reflective:
            # reflection law: d_out = d_in - 2 (d_in.n) n
            exp = d_in - 2*np.sum(d_in*nrm,1)[:,None]*nrm
            err = np.linalg.norm(d_out-exp,axis=1)
        else:
            err = np.linalg.norm(n1*np.cross(d_in,nrm) - n2*np.cross(d_out,nrm),axis=1)
        unit = np.abs(np.linalg.norm(d_out,axis=1)-1)
        res.append((k, np.nanmax(on), np.nanmax(err), np.nanmax(unit)))
    return res

if __name__=='__main__':
    from optiland.samples.objectives import CookeTriplet, ReverseTelephoto
    o=CookeTriplet()
    Py=np.linspace(-1,1,11); Px=np.linspace(-.5,.5,11)
    for r in snell_check(o, np.zeros(11), np.full(11,1.0), Px, Py, 0.55): print(r)
    o=Optic()
    o.add_surface(index=0, thickness=np.inf)
    o.add_surface(index=1, thickness=5, radius=50, material=IdealMaterial(1.5), is_stop=True, surface_type='even_asphere', coefficients=[1e-4,1e-6], rx=0.1, dy=0.5)
    o.add_surface(index=2, thickness=5, radius=-50, surface_type='polynomial', coefficients=[[0,0,1e-3],[0,1e-3,0]], ry=0.05)
    o.add_surface(index=3, thickness=5, radius=-50, conic=-2.0, material='mirror', rx=-0.05)
    o.add_surface(index=4, thickness=-10, surface_type='chebyshev', radius=80, coefficients=[[0,0,1e-3],[0,1e-3,0]], norm_x=50, norm_y=50, material=IdealMaterial(1.4))
    o.add_surface(index=5)
    o.set_aperture('EPD',4); o.set_field_type('angle'); o.add_field(0); o.add_field(3); o.add_wavelength(0.55,is_primary=True)
    for r in snell_check(o, np.zeros(11), np.full(11,1.0), Px, Py, 0.55): print(r)
    print(o.surface_group.y[:,0], o.surface_group.opd[:,0])
