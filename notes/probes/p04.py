import numpy as np, warnings
warnings.simplefilter('ignore')
from optiland.optic import Optic
from optiland.materials import IdealMaterial

def mk(surfs, obj=np.inf, stop=1, ap=('EPD',4.0), ftype='angle', fields=(0,5), img_th=0):
    """surfs: list of (radius, thickness_after, n_after or 'mirror')"""
    o=Optic()
    o.add_surface(index=0, thickness=obj)
    for k,(R,t,n) in enumerate(surfs, start=1):
        mat = 'mirror' if n=='mirror' else IdealMaterial(n)
        kw={} 
        if np.isfinite(R): kw['radius']=R
        o.add_surface(index=k, thickness=t, material=mat, is_stop=(k==stop), **kw)
    o.add_surface(index=len(surfs)+1)
    o.set_aperture(*ap); o.set_field_type(ftype)
    for f in fields: o.add_field(f)
    o.add_wavelength(0.55,is_primary=True)
    return o

def abcd(surfs):
    """system matrix from first vertex to last vertex using reduced angles (n u)."""
    M=np.eye(2); n=1.0; sign=1
    out=[]
    for k,(R,t,nn) in enumerate(surfs):
        if nn=='mirror':
            n2=-n
        else:
            n2 = nn*np.sign(n)  # after odd # of mirrors index negative
        phi = (n2-n)/R if np.isfinite(R) else 0.0
        Rm=np.array([[1,0],[-phi,1]])
        M=Rm@M
        n=n2
        if k<len(surfs)-1:
            T=np.array([[1,t/n],[0,1]])
            M=T@M
    return M,n

if __name__=='__main__':
    for name,surfs in [('pos',[(50,5,1.5),(-50,40,1.0)]),('neg',[(-50,5,1.5),(50,40,1.0)]),
                       ('mirror',[(-100,-40,'mirror')]),('cass',[(-100,-30,'mirror'),(-60,50,'mirror')]),
                       ('thick3',[(30,4,1.6),(-40,2,1.7),(np.inf,3,1.0),(25,30,1.0)])]:
        o=mk(surfs)
        M,nlast=abcd(surfs)
        A,B,C,D=M.ravel()
        efl=-1/C   # f' = -n'/C * ... with n'=nlast
        p=o.paraxial
        print(name, 'f2',p.f2(),'f1',p.f1(),'F2',p.F2(),'F1',p.F1(),'| abcd efl', -nlast/C*1/ (1) , 'bfd', -A/C*nlast)
