import numpy as np, warnings, json, tempfile, os
warnings.simplefilter('ignore')
from optiland.optic import Optic
from optiland.materials import IdealMaterial, Material, AbbeMaterial
from optiland.physical_apertures import RadialAperture
from optiland.coatings import SimpleCoating, FresnelCoating
from optiland.scatter import LambertianBSDF, GaussianBSDF
from optiland.rays import create_polarization
from optiland.fileio import save_optiland_file, load_optiland_file
def base(**kw1):
    o=Optic()
    o.add_surface(index=0,thickness=np.inf)
    o.add_surface(index=1,thickness=5,radius=50,material=IdealMaterial(1.5),is_stop=True,**kw1)
    o.add_surface(index=2,thickness=40,radius=-50)
    o.add_surface(index=3)
    o.set_aperture('EPD',8); o.set_field_type('angle'); o.add_field(0); o.add_field(5); o.add_wavelength(0.55,is_primary=True)
    return o
def rt(name,o,trace=True):
    try:
        d=o.to_dict(); o2=Optic.from_dict(d); d2=o2.to_dict()
        same = json.dumps(d,default=str,sort_keys=True)==json.dumps(d2,default=str,sort_keys=True)
        msg=f'dict rt ok same={same}'
    except Exception as e: msg=f'dict rt ERR {type(e).__name__} {str(e)[:60]}'
    try:
        fn=tempfile.mktemp(suffix='.json'); save_optiland_file(o,fn); o3=load_optiland_file(fn); os.remove(fn)
        if trace:
            r1=o.trace_generic(0.,1.,0.,.7,0.55); r3=o3.trace_generic(0.,1.,0.,.7,0.55)
            msg+=f' | json ok trace diff {abs(r1.y-r3.y)[0]:.2e} f2 {o.paraxial.f2()-o3.paraxial.f2():.1e}'
        else: msg+=' | json ok'
    except Exception as e: msg+=f' | json ERR {type(e).__name__} {str(e)[:70]}'
    print(name,':',msg)
rt('plain',base())
rt('aperture',base(aperture=RadialAperture(3,0.5)))
rt('simplecoat',base(coating=SimpleCoating(0.9,0.1)))
o=base(coating='fresnel'); o.set_polarization(create_polarization('H')); rt('fresnel+pol',o)
o=base(); o.set_polarization(create_polarization('unpolarized')); rt('pol only',o)
rt('bsdf',base(bsdf=GaussianBSDF(0.01)),trace=False)
rt('asphere',base(surface_type='even_asphere',coefficients=[1e-5,1e-7]))
rt('poly',base(surface_type='polynomial',coefficients=[[0,0,1e-4],[0,1e-4,0]]))
rt('cheb',base(surface_type='chebyshev',coefficients=[[0,0,1e-4],[0,1e-4,0]],norm_x=20,norm_y=20))
rt('tilt',base(rx=0.05,dy=0.3))
o=base(); o.set_thickness(6,1); rt('after set_thickness',o)
o=base(); o.pickups.add(1,'radius',2,scale=-1); rt('pickup',o)
o=base(); o.solves.add('marginal_ray_height',3,0.0); rt('solve',o)
o=base(); o.image_solve(); rt('image_solve',o)
o=base(); o.scale_system(2.0); rt('scaled',o)
o=base(); o.surface_group.surfaces[1].material_post=Material('N-BK7'); o.surface_group.surfaces[2].material_pre=o.surface_group.surfaces[1].material_post; rt('catalog glass',o)
o=base(); o.surface_group.surfaces[1].material_post=AbbeMaterial(1.6,50.); o.surface_group.surfaces[2].material_pre=o.surface_group.surfaces[1].material_post; rt('abbe',o)
o=Optic()
o.add_surface(index=0,thickness=np.inf); o.add_surface(index=1,thickness=-40,radius=-100,material='mirror',is_stop=True); o.add_surface(index=2)
o.set_aperture('imageFNO',5); o.set_field_type('angle'); o.add_field(0); o.add_wavelength(0.55,is_primary=True); rt('mirror',o)
o=base(); o.obj_space_telecentric=False; o.add_field(3,vx=0.1,vy=0.2); rt('vig',o)
