import numpy as np, warnings, tempfile, os
warnings.simplefilter('ignore')
from optiland.fileio import load_zemax_file
def zmx(surfs, ap=('ENPD',8.0), ftype=0, fields=(0,5,10), waves=(0.486,0.587,0.656), pw=2, enc='utf-8', mode='SEQ', tele=0):
    L=[f'MODE {mode}','UNIT MM X W X CM MR CPMM']
    if ap[0]=='ENPD': L.append(f'ENPD {ap[1]!r}')
    elif ap[0]=='FNUM': L.append(f'FNUM {ap[1]!r} 0')
    elif ap[0]=='OBNA': L.append(f'OBNA {ap[1]!r} 0')
    L.append('GCAT SCHOTT')
    L.append(f'FTYP {ftype} {tele} {len(fields)} {len(waves)} 0 0 0')
    L.append('XFLN '+' '.join('0.' for _ in fields)); L.append('YFLN '+' '.join(repr(float(f)) for f in fields))
    L.append(f'PWAV {pw}')
    for i,w in enumerate(waves,1): L.append(f'WAVM {i} {w!r} 1')
    for i,s in enumerate(surfs):
        L.append(f'SURF {i}')
        if s.get('stop'): L.append('  STOP')
        L.append(f"  TYPE {s.get('type','STANDARD')}")
        L.append(f"  CURV {s.get('curv',0.0)!r}")
        for j,p in enumerate(s.get('parm',[]),1): L.append(f'  PARM {j} {p!r}')
        t=s.get('disz',0.0); L.append('  DISZ '+('INFINITY' if np.isinf(t) else repr(t)))
        if 'conic' in s: L.append(f"  CONI {s['conic']!r}")
        if 'glass' in s: g=s['glass']; L.append(f'  GLAS {g[0]} 1 0 {g[1]!r} {g[2]!r}')
    txt='\n'.join(L)+'\n'
    fn=tempfile.mktemp(suffix='.zmx')
    with open(fn,'w',encoding=enc) as f: f.write(txt)
    return fn
S=[dict(disz=np.inf),dict(curv=0.02,disz=5.,glass=('N-BK7',1.5168,64.17),stop=True),dict(curv=-0.02,disz=2.,conic=-0.5),
   dict(type='EVENASPH',curv=0.01,disz=3.,glass=('MYGLASS',1.6,50.),parm=[0.,1e-5,1e-7,0,0,0,0,0]),dict(curv=0.,disz=40.),dict()]
for kw in [dict(),dict(enc='utf-16'),dict(ap=('FNUM',4.0)),dict(ftype=1),dict(waves=tuple(0.4+0.02*i for i in range(12)),pw=7),dict(fields=(10,0,5,5)),dict(mode='NSC')]:
    fn=zmx(S,**kw)
    try:
        o=load_zemax_file(fn)
        sg=o.surface_group
        print(kw,'| n',sg.num_surfaces,'radii',sg.radii,'pos',sg.positions.ravel(),'conic',sg.conic,'stop',sg.stop_index,'ap',o.aperture.ap_type,o.aperture.value,'ft',o.field_type,o.fields.y_fields,'w',o.wavelengths.get_wavelengths()[:3],o.wavelengths.primary_index, [type(s.material_post).__name__ for s in sg.surfaces], getattr(sg.surfaces[3].geometry,'c',None))
    except Exception as e: print(kw,'ERR',type(e).__name__,e)
    os.remove(fn)
# finite object OBNA
S2=[dict(disz=100.)]+S[1:]
fn=zmx(S2,ap=('OBNA',0.05),ftype=1); o=load_zemax_file(fn); print(o.aperture.ap_type,o.aperture.value,o.surface_group.positions.ravel()); os.remove(fn)
