import numpy as np, warnings
warnings.simplefilter('ignore')
from optiland.zernike import ZernikeStandard, ZernikeNoll, ZernikeFringe, ZernikeFit
# index rule checks
def osa(j):
    n=int(np.ceil((-3+np.sqrt(9+8*j))/2)); m=2*j-n*(n+2); return n,m
zs=ZernikeStandard(); print('std ok', all(zs.indices[j]==osa(j) for j in range(120)), len(zs.indices))
def noll_to_nm(j):
    n=0; j1=j-1
    while j1>n: n+=1; j1-=n
    m=(-1)**j*((n%2)+2*int((j1+((n+1)%2))/2.0)); return n,m
zn=ZernikeNoll(); print('noll ok', all(zn.indices[j-1]==noll_to_nm(j) for j in range(1,121)), len(zn.indices))
zf=ZernikeFringe(); 
def fringe_idx(n,m): return int((1+(n+abs(m))/2)**2-2*abs(m)+(1-np.sign(m))/2)
print('fringe ok', [fringe_idx(*nm) for nm in zf.indices]==list(range(1,121)), len(zf.indices), len(set(zf.indices)))
# orthonormality by exact quadrature: Gauss-Legendre in r^2... use polar quadrature
nr=60; nt=64
x,wq=np.polynomial.legendre.leggauss(nr); r=(x+1)/2; wr=wq/2*r
t=np.arange(nt)*2*np.pi/nt
R,T=np.meshgrid(r,t,indexing='ij'); W=np.outer(wr,np.full(nt,2*np.pi/nt))/np.pi
for Z,name in ((zs,'std'),(zn,'noll')):
    N=45
    V=[]
    for k in range(N):
        n,m=Z.indices[k]; V.append(Z.get_term(1.0,n,m,R,T))
    V=np.array(V).reshape(N,-1); G=(V*W.ravel())@V.T
    print(name,'gram err',np.max(np.abs(G-np.eye(N))))
# radial value at edge
for Z in (zs,zn,zf):
    print(max(abs(Z._radial_term(n,m,1.0)-1) for n,m in Z.indices[:120]))
# fit recovery
rng=np.random.default_rng(0)
from optiland.distribution import create_distribution
d=create_distribution('hexapolar'); d.generate_points(8)
for typ in ('fringe','standard','noll'):
    for N in (1,5,22,37):
        c=rng.normal(size=N)
        Zc={'fringe':ZernikeFringe,'standard':ZernikeStandard,'noll':ZernikeNoll}[typ](list(c))
        z=Zc.poly(np.hypot(d.x,d.y),np.arctan2(d.y,d.x))
        z=np.asarray(z,float)*np.ones_like(d.x)
        f=ZernikeFit(d.x,d.y,z,typ,N)
        print(typ,N,'recover err',np.max(np.abs(np.array(f.coeffs)-c)))
