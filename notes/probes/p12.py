import numpy as np, warnings
warnings.simplefilter('ignore')
import matplotlib; matplotlib.use('Agg')
from p04 import mk
from optiland.analysis import *
np.set_printoptions(precision=6, suppress=True, linewidth=200)
surfs=[(50,5,1.5),(-80,40,1.0)]
def mk3(stop=1, obj=np.inf, ft='angle'):
    o=mk(surfs,stop=stop,obj=obj,ftype=ft,ap=('EPD',6.0),fields=(0,3.5,5))
    o.wavelengths.wavelengths=[]
    o.add_wavelength(0.48); o.add_wavelength(0.55,is_primary=True); o.add_wavelength(0.65)
    return o
o=mk3()
def tryit(name,f):
    try:
        r=f(); print(name,'OK', r if r is not None else '')
    except Exception as e: print(name,'ERR',type(e).__name__,e)
tryit('spot explicit wl', lambda: SpotDiagram(o,wavelengths=[0.55]).rms_spot_radius())
tryit('spot explicit wl 2', lambda: SpotDiagram(o,wavelengths=[0.50,0.60]).centroid())
tryit('rayfan explicit wl', lambda: RayFan(o,wavelengths=[0.5],num_points=5).data.keys())
tryit('rayfan fields', lambda: list(RayFan(o,fields=[(0,0.5)],num_points=5).data.keys()))
for stop in (1,2):
    o=mk3(stop=stop)
    pa=PupilAberration(o,num_points=5)
    print('pupil ab stop',stop, pa.data['(0.0, 1.0)']['0.55']['y'])
o=mk3(stop=2)
d=Distortion(o,num_points=5); print('dist', d.data[1])
o2=mk3(stop=2,obj=200.,ft='object_height')
d=Distortion(o2,num_points=5); print('dist finite', d.data[1])
# independent distortion for finite: paraxial image height = m*h
Hy=np.linspace(1e-10,1,5)
o2.trace_generic(np.zeros(5),Hy.copy(),np.zeros(5),np.zeros(5),0.55); yr=o2.surface_group.y[-1].copy()
yp=yr[0]/1e-10*Hy; print('indep finite', 100*(yr-yp)/yp)
fc=FieldCurvature(o,num_points=4); print('fc', fc.data[1])
g=GridDistortion(o,num_points=3); print('grid max', g.data['max_distortion'])
rs=RmsSpotSizeVsField(o,num_fields=3); print('rms vs field', rs._spot_size)
tryit('rms wf vs field', lambda: RmsWavefrontErrorVsField(o,num_fields=3)._wavefront_error)
e=EncircledEnergy(o,num_rays=500); 
import matplotlib.pyplot as plt
e.view(); ax=plt.gcf().axes[0]; 
for ln in ax.get_lines(): 
    yy=ln.get_ydata(); print('EE monotone', np.all(np.diff(yy)>=0), yy[-1])
