import numpy as np, warnings, copy, json
warnings.simplefilter('ignore')
import matplotlib; matplotlib.use('Agg')
from p04 import mk
from optiland.analysis import *
from optiland.wavefront import Wavefront
np.set_printoptions(precision=6, suppress=True, linewidth=200)
surfs=[(50,5,1.5),(-80,40,1.0)]
def lens(vig=False):
    o=mk(surfs,stop=2,ap=('EPD',6.0),fields=())
    o.add_field(0); o.add_field(3.5, vy=0.2 if vig else 0, vx=0.1 if vig else 0); o.add_field(5, vy=0.4 if vig else 0, vx=0.2 if vig else 0)
    return o
def snap(o):
    d=o.to_dict()
    return json.dumps(d, default=lambda x: np.asarray(x).tolist(), sort_keys=True)
# caller arrays
for vig in (False,True):
    o=lens(vig)
    Hx=np.zeros(3); Hy=np.array([0.,.5,1.]); Px=np.array([0.,.3,.6]); Py=np.array([1.,.5,-1.])
    a=[x.copy() for x in (Hx,Hy,Px,Py)]
    s0=snap(o)
    o.trace_generic(Hx,Hy,Px,Py,0.55)
    print('vig',vig,'caller arrays changed:', [not np.array_equal(x,y) for x,y in zip(a,(Hx,Hy,Px,Py))], 'lens changed', snap(o)!=s0)
    # int arrays
    try:
        o.trace_generic(np.zeros(2),np.zeros(2),np.array([0,1]),np.array([1,0]),0.55); print('int arrays ok')
    except Exception as e: print('int arrays ERR',type(e).__name__, str(e)[:80])
    try:
        o.trace_generic(0,0,0,1,0.55); print('int scalars ok', o.surface_group.y[-1])
    except Exception as e: print('int scalars ERR',type(e).__name__, str(e)[:80])
    try:
        o.trace_generic(0.,0.,[0.,0.],[1.,.5],0.55); print('lists ok', o.surface_group.y[-1])
    except Exception as e: print('lists ERR',type(e).__name__, str(e)[:80])
# one ray vs batch independence
o=lens()
o.trace_generic(0.,1.,0.,1.,0.55); y1=o.surface_group.y[:,0].copy()
o.trace_generic(np.zeros(3),np.ones(3),np.zeros(3),np.array([1.,0.,-1.]),0.55); y3=o.surface_group.y[:,0].copy()
print('single vs batch', np.max(np.abs(y1-y3)))
# paraxial queries don't change lens; repeated identical
s0=snap(o); f=[o.paraxial.f2(),o.paraxial.EPL(),o.paraxial.XPL()]; o.aberrations.seidels(); Wavefront(o); SpotDiagram(o); 
print('after queries lens changed', snap(o)!=s0)
# distribution object passed by caller
from optiland.distribution import create_distribution
d=create_distribution('hexapolar'); d.generate_points(2); dx=d.x.copy()
ov=lens(True); ov.trace(0,1,0.55,distribution=d); print('caller distribution changed', not np.array_equal(dx,d.x))
