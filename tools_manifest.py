#!/usr/bin/env python3
"""Regenerates MANIFEST.json from the table below (one row per property)."""
import json, os
HERE = os.path.dirname(os.path.abspath(__file__))
CHECKS = {}   # pid -> dict(text, note, technique, design_ref)
NA = {}       # pid -> reason
exec(open(os.path.join(HERE, 'manifest_table.py')).read())
props = [json.loads(l) for l in open(os.path.join(HERE, 'properties.jsonl'))]
checks = []
for p in props:
    pid = p['id']
    if pid in CHECKS:
        c = CHECKS[pid]
        checks.append(dict(property_id=pid, quick_cmd=f'bin/check {pid} --tier quick',
                           thorough_cmd=f'bin/check {pid} --tier thorough',
                           evidence_file=f'/verif/evidence/{pid}.json',
                           replay_cmd_template=f'bin/check {pid} --replay {{path}}', engine='vmc',
                           level_claimed=dict(category='model_checking', text=c['text'], design_ref=c['design_ref']),
                           level_note=c['note'], technique=c['technique']))
na = [dict(property_id=p['id'], reason=NA.get(p['id'], 'check not built yet in this session (planned, see DESIGN.md section 3)'))
      for p in props if p['id'] not in CHECKS]
man = dict(version=1,
           setup_cmd='bin/setup',
           hooks=dict(guard='OPTILAND_VERIF', enable='none needed: checks observe through the public API; bin/check exports OPTILAND_VERIF=1 for completeness',
                      baseline_off_cmd='cd /repo && /venv/bin/python -m pytest -ra -q -p no:cacheprovider --timeout=900 --continue-on-collection-errors',
                      source_commits=[], add_only=True),
           engines=[dict(name='vmc', path='/verif/vmc', serves_properties=sorted(CHECKS),
                         kind_free_text='hand-written explicit-state explorer over the real library: bounded-exhaustive construction/history/finite-domain enumeration with independent reference models (vmc/ref), fork pool, replay + known-findings plumbing')],
           checks=checks, not_applicable=na,
           notes='All checks run /venv/bin/python against the working tree in $VERIF_REPO (default /repo). Known findings: /verif/known_findings.json. See DESIGN.md.')
json.dump(man, open(os.path.join(HERE, 'MANIFEST.json'), 'w'), indent=1)
print('checks', len(checks), 'not_applicable', len(na))
