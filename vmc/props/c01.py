"""C01 - lens prescription stays consistent under any history of edits.

Phase 1 (construction LTS): every word over a 12-symbol surface alphabet (all geometry types, mirror, catalogue glass,
decentre, tilt, stop flags) appended in index order, infinite and finite object, the reference prescription model stepped
alongside and compared field by field after every add_surface; wavelength additions with every primary-flag pattern;
insertion in the middle / removal for the stop clause.
Phase 2 (history LTS): from 6 representative lenses, breadth-first exploration of the edit alphabet (setters, all nine variable
types scaled and unscaled, pickups in both registration orders, marginal-ray-height solves, update, image_solve,
add_wavelength) with canonical-state de-duplication. Oracle: vmc.ref.prescription.RefLens (frame conditions of every
edit), the pickup law, and the reference paraxial marginal ray for solves.
"""
import copy
import itertools
import math

import numpy as np

from vmc import lens as LZ
from vmc.core import Part, digest, exc_text, lib_site
from vmc.lens import S, V
from vmc.ref import abcd
from vmc.ref.prescription import RefLens
from vmc.ref import prescription

PID = 'C01'
TOL = 1e-10
WPROBE = (0.45, 0.65)
META = dict(
    rule='unit = one construction word (all prefixes checked) or one (initial lens, first edit) sub-tree of the history LTS; '
         'evaluation = one transition (a real API call) followed by the field-by-field comparison with the reference model; distinct = '
         'canonical states',
    exhaustive=True,
    bounds=dict(quick='construction: words depth<=3 over 12 symbols x {infinite, finite} object (3768 lenses); wavelengths: all 8 primary '
                      'patterns of 3 additions; edits: 6 lenses x all histories of length 2 over ~45 operations + length 3 over a 14-operation '
                      'sub-alphabet, canonical-state de-duplication',
                thorough='construction depth 4 over 8 symbols added; edit histories of length 3 over the full alphabet on 3 lenses; 4 variants'),
    tolerances=dict(read_back='1e-10 relative', solve='1e-9 x marginal ray height'),
    assumptions=['reference prescription model vmc.ref.prescription.RefLens', 'paraxial marginal ray of vmc.ref.abcd', 'catalogue indices via a '
                 'fresh Material (C18)'],
)


# ----------------------------------------------------------------------------------------------------------------------
# observations
# ----------------------------------------------------------------------------------------------------------------------
def f1(v):
    return float(np.ravel(v)[0])


def obs_lib(o):
    from optiland import geometries as G
    sg = o.surface_group
    surf = []
    for k, s in enumerate(sg.surfaces):
        g = s.geometry
        c = getattr(g, 'c', None)
        if c is not None:
            c = np.asarray(c, dtype=float).tolist()
        shape = 'plane' if isinstance(g, G.Plane) else 'curved'
        surf.append(dict(z=f1(g.cs.position_in_gcs[2]), R=float(g.radius), k=float(getattr(g, 'k', 0.0)), coeffs=c,
                         x=f1(g.cs.x), y=f1(g.cs.y), rx=float(g.cs.rx), ry=float(g.cs.ry), stop=bool(s.is_stop),
                         n_pre=[None if s.material_pre is None or k == 0 else f1(s.material_pre.n(w)) for w in WPROBE],
                         n_post=[f1(s.material_post.n(w)) for w in WPROBE], shape=shape))
    waves = [[float(w.value), bool(w.is_primary)] for w in o.wavelengths.wavelengths]
    return dict(surf=surf, waves=waves)


def obs_ref(ref):
    z = ref.positions()
    pre, post = ref.media()
    surf = []
    idx = {}

    def index_of(m, w):
        key = (str(m), w)
        if key not in idx:
            idx[key] = LZ.ref_index(m, w, 1.0)
        return idx[key]
    for k, s in enumerate(ref.surf):
        c = s['coeffs']
        if c is not None:
            c = [list(r) if isinstance(r, list) else r for r in c]
        surf.append(dict(z=z[k], R=float(s['R']), k=float(s['k']), coeffs=c, x=s['x'], y=s['y'], rx=s['rx'], ry=s['ry'], stop=s['stop'],
                         n_pre=[None if k == 0 else index_of(pre[k], w) for w in WPROBE], n_post=[index_of(post[k], w) for w in WPROBE],
                         shape='plane' if s['shape'] == 'plane' else 'curved'))
    return dict(surf=surf, waves=[list(w) for w in ref.waves])


def first_diff(a, b, path=''):
    if isinstance(a, dict):
        for k in a:
            r = first_diff(a[k], b.get(k) if isinstance(b, dict) else None, f'{path}.{k}')
            if r:
                return r
        return None
    if isinstance(a, list):
        if not isinstance(b, list) or len(a) != len(b):
            return path, a, b
        for i, (x, y) in enumerate(zip(a, b)):
            r = first_diff(x, y, f'{path}[{i}]')
            if r:
                return r
        return None
    if isinstance(a, float) and isinstance(b, (float, int)):
        if (math.isinf(a) and math.isinf(float(b)) and a == float(b)) or abs(a - b) <= TOL * max(1.0, abs(a), abs(b)):
            return None
        return path, a, b
    return None if a == b else (path, a, b)


CLAUSE_OF_FIELD = dict(z='vertex-at-running-sum-of-thicknesses', n_pre='medium-in-front-is-predecessors-medium', n_post='medium-behind-surface',
                       stop='at-most-one-stop', R='radius-read-back', k='conic-read-back', coeffs='coefficient-read-back', x='decentre-read-back',
                       y='decentre-read-back', rx='tilt-read-back', ry='tilt-read-back', shape='surface-shape', waves='exactly-one-primary-wavelength')


def compare(part, o, ref, site, cond, det):
    """Library vs reference model; returns True if equal. One violation (first differing field) otherwise."""
    a, b = obs_lib(o), obs_ref(ref)
    part.count('cmp:state')
    d = first_diff(b, a)
    if d is None:
        # invariants stated directly
        if sum(1 for s in a['surf'] if s['stop']) > 1:
            part.violation(PID, 'at-most-one-stop', site, cond, det, observed=[s['stop'] for s in a['surf']], expected='<= 1 stop')
            return False
        if a['waves'] and sum(1 for w in a['waves'] if w[1]) != 1:
            part.violation(PID, 'exactly-one-primary-wavelength', site, cond, det, observed=a['waves'], expected='exactly one primary')
            return False
        return True
    path, exp, got = d
    field = path.split('.')[-1].split('[')[0]
    clause = CLAUSE_OF_FIELD.get(field, 'state')
    if path.startswith('.waves'):
        clause = 'exactly-one-primary-wavelength'
    part.violation(PID, clause, site, cond, dict(det, where=path), observed=got, expected=exp, tol=TOL)
    return False


# ----------------------------------------------------------------------------------------------------------------------
# phase 1: construction
# ----------------------------------------------------------------------------------------------------------------------
def alphabet(v):
    p = V(v)
    g1, g2 = ['ideal', p['n1'], 0.0], ['ideal', p['n2'], 0.0]
    t = p['t']
    return [
        S('sphere', R=p['R'], mat=g1, t=t[1]),
        S('sphere', R=-p['R'], mat='air', t=t[2], stop=True),
        S('plane', mat=g2, t=t[0]),
        S('conic', R=-p['Rc'], k=-1.0, mat='air', t=t[1], stop=True),
        S('asph', R=p['Ra'], k=-0.2, coeffs=[1e-5, -2e-8], mat='N-BK7', t=t[0]),
        S('sphere', R=-2.5 * p['R'], mat='mirror', t=t[2]),
        S('sphere', R=p['R'], mat=g1, t=t[0], dy=p['dy'], rx=p['rx']),
        S('plane', mat='air', t=0.0),
        # ---- depth-limited rest
        S('poly', R=-p['Ra'], k=0.0, coeffs=[[0.0, 1e-3], [2e-3, 1e-4]], mat=g2, t=t[0]),
        S('cheb', R=80.0, k=0.1, coeffs=[[0.0, 0.02], [0.03, 0.005]], norm=[150.0, 120.0], mat='SF11', t=t[0], stop=True),
        S('asph', R=LZ.INF, k=0.0, coeffs=[2e-4], mat='air', t=t[1], dx=p['dx'], ry=p['ry']),
        S('conic', R=p['Rc'], k=0.6, mat='mirror', t=t[1]),
    ]


# 12-surface prescriptions (every surface type, mirrors, decentres/tilts, stop flags on several surfaces)
LONG_WORDS = [
    [0, 1, 2, 3, 4, 7, 6, 1, 8, 9, 10, 1],
    [4, 1, 5, 5, 0, 3, 2, 7, 10, 1, 6, 9],
    [8, 3, 0, 1, 11, 11, 2, 1, 4, 7, 0, 3],
    [10, 9, 8, 7, 6, 5, 4, 3, 2, 1, 0, 1],
]


def units(tier, variant):
    A = alphabet(variant)
    out = []
    ws = list(LZ.words(A, 1, 2)) + list(LZ.words(A[:8], 3, 3)) if tier == 'quick' else list(LZ.words(A, 1, 3)) + list(LZ.words(A[:8], 4, 4))
    ws += [tuple(w) for w in LONG_WORDS]
    B = 12
    for i in range(0, len(ws), B):
        out.append(dict(kind='construct', words=[list(w) for w in ws[i:i + B]], variant=variant))
    out.append(dict(kind='wavelengths', variant=variant))
    out.append(dict(kind='solve-interplay', variant=variant))
    out.append(dict(kind='insert-remove', variant=variant))
    # pickup chains: both registration orders, edits of the source, one or two updates (histories of length <= 5 over 4 operations)
    ops_d = edit_alphabet('doublet', variant)
    chain = [i for i, op in enumerate(ops_d) if (op[0] == 'pickup' and op[2] == 'radius') or op == ('update',) or (op[0] == 'set_radius' and op[1] == 1)]
    for i in chain:
        out.append(dict(kind='edits', lens='doublet', first=i, depth=5, restrict=chain, variant=variant))
    # pickup + solve interplay: a pickup target in front of a solved surface, source edited, update (length <= 5 over 5 operations)
    both = [i for i, op in enumerate(ops_d) if op in (('pickup', 1, 'radius', 2, -1.0, 0.5), ('update',)) or (op[0] == 'solve')
            or (op[0] == 'set_radius' and op[1] == 1)]
    for i in both:
        out.append(dict(kind='edits', lens='doublet', first=i, depth=5, restrict=both, variant=variant))
    # pickups registered while source and target are still flat, then the source is given a radius (histories of length <= 4)
    ops_w = edit_alphabet('plano-window', variant)
    flat = [i for i, op in enumerate(ops_w) if op[0] == 'pickup' or op == ('update',) or op[0] in ('set_radius', 'set_conic')]
    for i in flat:
        out.append(dict(kind='edits', lens='plano-window', first=i, depth=4, restrict=flat, variant=variant))
    for name in initial_lenses(variant):
        if name in CHAINS_ONLY:
            continue
        ops = edit_alphabet(name, variant)
        for i in range(len(ops)):
            out.append(dict(kind='edits', lens=name, first=i, depth=2, variant=variant))
        sub = sub_alphabet(name, variant)
        deep = (tier == 'thorough' and name in ('doublet', 'mirror-in-glass', 'finite-tilted'))
        for i in (range(len(ops)) if deep else sub):
            out.append(dict(kind='edits', lens=name, first=i, depth=3, restrict=None if deep else sub, variant=variant))
    return out


def run_construct(part, unit):
    from optiland.optic import Optic
    v = unit['variant']
    p = V(v)
    A = alphabet(v)
    for w in unit['words']:
        surfs = LZ.fix_thickness_signs([A[i] for i in w])
        for obj in (LZ.INF, p['od'][0]):
            o = Optic()
            ref = RefLens(obj)
            det = dict(word=w, object=obj, variant=v)
            cond = 'construction'
            try:
                o.add_surface(index=0, thickness=obj)
                part.transitions += 1
                ok = True
                for i, s in enumerate(surfs, start=1):
                    o.add_surface(index=i, is_stop=bool(s.get('stop')), material=LZ.make_material(s['mat']), thickness=s['t'], **LZ.surface_kwargs(s))
                    ref.add_surface(s)
                    part.transitions += 1
                    part.evals += 1
                    if not compare(part, o, ref, 'Optic.add_surface', cond, dict(det, after_surface=i)):
                        ok = False
                        break
                if ok:
                    o.add_surface(index=len(surfs) + 1)
                    ref.add_surface(S('plane', mat='air', t=0.0))
                    part.transitions += 1
                    part.evals += 1
                    compare(part, o, ref, 'Optic.add_surface', cond, dict(det, after_surface='image'))
            except Exception as exc:  # noqa
                site = lib_site(exc)
                if site == 'harness':
                    raise
                part.violation(PID, 'valid-call-succeeds', site, cond + ',raises=' + type(exc).__name__, det, observed=exc_text(exc), expected='call succeeds')
            part.states += 1
            part.outcome(tuple(w), obj)
    part.sample(dict(words=unit['words'][:2]))


def run_wavelengths(part, unit):
    from optiland.optic import Optic
    for pattern in itertools.product([False, True], repeat=3):
        for extra in ([], [True], [False]):
            o = Optic()
            ref = RefLens(LZ.INF)
            seq = list(pattern) + extra
            for i, pr in enumerate(seq):
                val = 0.45 + 0.05 * i
                o.add_wavelength(val, is_primary=pr)
                ref.add_wavelength(val, pr)
                part.transitions += 1
                part.evals += 1
                a = [[float(w.value), bool(w.is_primary)] for w in o.wavelengths.wavelengths]
                det = dict(pattern=seq[:i + 1], variant=unit['variant'])
                if a != ref.waves or sum(1 for w in a if w[1]) != 1:
                    part.violation(PID, 'exactly-one-primary-wavelength', 'Optic.add_wavelength', 'wavelength-additions', det, observed=a, expected=ref.waves)
                    break
                if abs(o.primary_wavelength - [w for w in ref.waves if w[1]][0][0]) > 1e-15:
                    part.violation(PID, 'exactly-one-primary-wavelength', 'Optic.primary_wavelength', 'wavelength-additions', det,
                                   observed=o.primary_wavelength, expected=[w for w in ref.waves if w[1]][0][0])
            part.states += 1
            part.outcome(tuple(seq))
    part.sample(dict(patterns='all 8 primary patterns of 3 additions x {none, +primary, +secondary}'))


def run_insert_remove(part, unit):
    """Insertion in the middle and removal: only the stop clause is stated for them."""
    v = unit['variant']
    A = alphabet(v)
    for w in ([0, 1, 2], [3, 0, 1], [1, 3, 9], [0, 2, 7]):
        for ins in range(1, len(w) + 1):
            for stopflag in (True, False):
                for rem in (None, 1, 2, len(w)):
                    surfs = LZ.fix_thickness_signs([A[i] for i in w])
                    sp = LZ.spec(surfs, obj=LZ.INF)
                    o = LZ.build(sp)
                    det = dict(word=w, insert_at=ins, insert_is_stop=stopflag, remove=rem, variant=v)
                    try:
                        o.add_surface(index=ins, radius=33.0, thickness=1.0, material='air', is_stop=stopflag)
                        part.transitions += 1
                        if rem is not None:
                            o.surface_group.remove_surface(rem)
                            part.transitions += 1
                    except Exception as exc:  # noqa
                        part.violation(PID, 'valid-call-succeeds', lib_site(exc), 'insert-remove,raises=' + type(exc).__name__, det, observed=exc_text(exc),
                                       expected='call succeeds')
                        continue
                    part.evals += 1
                    part.states += 1
                    n_stop = sum(1 for s in o.surface_group.surfaces if s.is_stop)
                    if n_stop > 1:
                        part.violation(PID, 'at-most-one-stop', 'Optic.add_surface', 'insert-remove', det, observed=n_stop, expected='<= 1')
                    part.outcome(tuple(w), ins, stopflag, rem)
    part.sample(dict(insert_remove='4 words x every insertion index x stop flag x removal'))


# ----------------------------------------------------------------------------------------------------------------------
# phase 2: edit histories
# ----------------------------------------------------------------------------------------------------------------------
def initial_lenses(v):
    p = V(v)
    g1, g2 = ['ideal', p['n1'], 0.0], ['ideal', p['n2'], 0.0]
    R, t = p['R'], p['t']
    L = {}
    L['doublet'] = (LZ.INF, [S('sphere', R=R, mat=g1, t=t[1], stop=True), S('sphere', R=-R, mat=g2, t=t[0]), S('sphere', R=-3 * R, mat='air', t=2 * R)])
    L['conic-asphere'] = (LZ.INF, [S('conic', R=R, k=-0.5, mat=g1, t=t[1]), S('asph', R=-2 * R, k=0.0, coeffs=[1e-5, -2e-8], mat='air', t=t[2], stop=True),
                                   S('plane', mat=g2, t=t[0]), S('sphere', R=-R, mat='air', t=R)])
    L['freeform'] = (LZ.INF, [S('poly', R=2 * R, k=0.0, coeffs=[[0.0, 1e-3], [2e-3, 1e-4]], mat=g1, t=t[1], stop=True),
                              S('cheb', R=-3 * R, k=0.0, coeffs=[[0.0, 0.02], [0.03, 0.005]], norm=[150.0, 120.0], mat='air', t=R)])
    L['mirror-in-glass'] = (LZ.INF, [S('sphere', R=1.5 * R, mat=g1, t=t[1], stop=True), S('sphere', R=-4 * R, mat='mirror', t=-t[1]),
                                     S('sphere', R=1.5 * R, mat='air', t=-R)])
    L['finite-tilted'] = (p['od'][0], [S('sphere', R=R, mat=g1, t=t[1], dy=p['dy'], rx=p['rx']), S('sphere', R=-R, mat='air', t=t[0], stop=True),
                                       S('plane', mat=g2, t=t[0], dx=p['dx'], ry=p['ry']), S('sphere', R=-2 * R, mat='air', t=R)])
    L['catalogue'] = (LZ.INF, [S('sphere', R=R, mat='N-BK7', t=t[1], stop=True), S('sphere', R=-R, mat='SF11', t=t[0]), S('plane', mat='air', t=1.5 * R)])
    # two singlets of the same glass, the material object created once and handed to both add_surface calls
    L['shared-glass'] = (LZ.INF, [S('sphere', R=R, mat=g1, t=t[1], stop=True), S('sphere', R=-R, mat='air', t=t[0]),
                                  S('sphere', R=2 * R, mat=g1, t=t[1]), S('sphere', R=-2 * R, mat='air', t=1.5 * R)])
    # two aspheres given the same coefficient list object, and a polynomial surface whose coefficients are given as integer zeros
    L['shared-coeffs'] = (LZ.INF, [S('asph', R=R, k=0.0, coeffs=[1e-5, -2e-8], mat=g1, t=t[1], stop=True),
                                   S('asph', R=-2 * R, k=0.0, coeffs=[1e-5, -2e-8], mat='air', t=t[0]),
                                   S('poly', R=3 * R, k=0.0, coeffs=[[0, 0, 0], [0, 0, 0], [0, 0, 0]], mat=g2, t=t[1]),
                                   S('sphere', R=-3 * R, mat='air', t=1.5 * R)])
    # a plano window that is bent into a lens by edits: pickup sources / targets are flat when the pickup is registered
    L['plano-window'] = (LZ.INF, [S('plane', mat=g1, t=t[1], stop=True), S('plane', mat='air', t=2 * R)])
    return L


CHAINS_ONLY = ('plano-window',)      # lenses used by the targeted pickup families only (afocal: no solves, no general histories)


def edit_alphabet(name, v):
    p = V(v)
    obj, surfs = initial_lenses(v)[name]
    n = len(surfs)
    ops = []
    for k in range(1, n + 1):
        s = surfs[k - 1]
        ops.append(('set_radius', k, 1.1 * p['R'] if k % 2 else -0.9 * p['R']))
        if s['shape'] != 'plane' or name in ('conic-asphere', 'plano-window'):
            ops.append(('set_conic', k, -0.45))        # (on two lenses also on their flat surfaces)
        ops.append(('set_thickness', k, 3.5 if k % 2 else 11.0))
        if s['mat'] != 'mirror':
            ops.append(('set_index', k, 1.61))
        if s['shape'] == 'asph':
            ops.append(('set_asphere_coeff', k, 1, 3e-8))
    # the object distance: change a finite one, make an infinite one finite
    ops.append(('set_thickness', 0, 0.8 * obj if not math.isinf(obj) else 200.0))
    # variables: all nine types, scaled and unscaled
    k1 = 1
    k2 = min(2, n)
    for scaled in (True, False):
        ops.append(('var', 'radius', dict(surface_number=k1), scaled, 0.2 if scaled else 1.3 * p['R']))
        ops.append(('var', 'thickness', dict(surface_number=k2), scaled, -0.2 if scaled else 4.4))
        if surfs[k1 - 1]['shape'] != 'plane':
            ops.append(('var', 'conic', dict(surface_number=k1), scaled, -0.8))
        if surfs[k1 - 1]['mat'] != 'mirror':
            ops.append(('var', 'index', dict(surface_number=k1, wavelength=0.55), scaled, 0.2 if scaled else 1.7))
        ops.append(('var', 'tilt', dict(surface_number=k2, axis='x'), scaled, 0.015))
        ops.append(('var', 'decenter', dict(surface_number=k2, axis='y'), scaled, -0.25))
    for k in range(1, n + 1):
        s = surfs[k - 1]
        if s['shape'] == 'asph':
            ops.append(('var', 'asphere_coeff', dict(surface_number=k, coeff_number=0), True, 0.7))
            ops.append(('var', 'asphere_coeff', dict(surface_number=k, coeff_number=1), False, -4e-8))
        if s['shape'] == 'poly':
            ops.append(('var', 'polynomial_coeff', dict(surface_number=k, coeff_index=[1, 1]), True, 3e-4))
            ops.append(('var', 'polynomial_coeff', dict(surface_number=k, coeff_index=[2, 1]), False, 1e-5))
        if s['shape'] == 'cheb':
            ops.append(('var', 'chebyshev_coeff', dict(surface_number=k, coeff_index=[1, 0]), True, 0.04))
    # pickups (acyclic): a two-link chain in both registration orders + a thickness pickup
    if n >= 3:
        ops.append(('pickup', 1, 'radius', 2, -1.0, 0.5))
        ops.append(('pickup', 2, 'radius', 3, 1.0, 0.0))
        ops.append(('pickup', 1, 'thickness', 2, 1.0, 0.5))
    elif n == 2:
        ops.append(('pickup', 1, 'radius', 2, -1.0, 0.5))
    if surfs[0]['shape'] != 'plane' and n >= 2 and surfs[1]['shape'] != 'plane':
        ops.append(('pickup', 1, 'conic', 2, 0.5, -0.1))
    # solves: image surface and an interior powered surface (centred lenses only: the paraxial marginal ray of a decentred lens is
    # not the matrix-optics ray of the reference model)
    centred = not any(s_.get('dx') or s_.get('dy') or s_.get('rx') or s_.get('ry') for s_ in surfs)
    if centred:
        ops.append(('solve', n + 1, 0.0))
        if n >= 3:
            ops.append(('solve', n, 0.8))
        ops.append(('image_solve',))
    ops.append(('update',))
    ops.append(('add_wavelength', 0.65, True))
    ops.append(('add_wavelength', 0.48, False))
    return ops


def sub_alphabet(name, v):
    ops = edit_alphabet(name, v)
    want = []
    seen = set()
    for i, op in enumerate(ops):
        key = op[0] if op[0] != 'var' else ('var', op[1], op[3])
        if op[0] in ('pickup', 'solve'):
            want.append(i)
        elif key not in seen and (op[0] != 'var' or op[1] in ('radius', 'thickness', 'index')):
            seen.add(key)
            want.append(i)
    return want[:16]


def ref_rows(ref, w=None):
    """abcd rows from the reference model (at its primary wavelength)."""
    if w is None:
        w = next((x[0] for x in ref.waves if x[1]), 0.55)
    z = ref.positions()
    pre, post = ref.media()
    rows = []
    for k, s in enumerate(ref.surf):
        rows.append(dict(shape='plane' if s['shape'] == 'plane' else 'conic', R=s['R'], z=z[k], n_pre=1.0 if k == 0 else LZ.ref_index(pre[k], w, 1.0),
                         n_post=LZ.ref_index(post[k], w, 1.0), mirror=(s['medium'] == 'mirror'), stop=s['stop']))
    return rows


def sync_thickness_from_lib(o, ref, k):
    """Adopt the library's vertex position of surface k (and all later ones, rigidly) into the reference model: used after a solve,
    whose *result* is defined by a condition (the marginal ray height), not by a procedure."""
    zs = [f1(s.geometry.cs.position_in_gcs[2]) for s in o.surface_group.surfaces]
    ref.t[k - 1] = zs[k] - zs[k - 1]


def apply_op(part, o, ref, op, state, det, cond_base):
    """One transition on the real lens and on the reference model. Returns True if the state is consistent afterwards."""
    from optiland.optimization.variable import Variable
    site = 'Optic.' + op[0]
    cond = cond_base
    try:
        if op[0] == 'set_radius':
            o.set_radius(op[2], op[1])
            ref.set_radius(op[2], op[1])
        elif op[0] == 'set_conic':
            o.set_conic(op[2], op[1])
            ref.set_conic(op[2], op[1])
        elif op[0] == 'set_thickness':
            o.set_thickness(op[2], op[1])
            ref.set_thickness(op[2], op[1])
            if op[1] == 0:
                cond = cond_base + ',object-distance'
        elif op[0] == 'set_index':
            o.set_index(op[2], op[1])
            ref.set_index(op[2], op[1])
            if op[1] < len(ref.surf) - 1 and ref.surf[op[1] + 1]['medium'] == 'mirror':
                cond = cond_base + ',mirror-follows'
        elif op[0] == 'set_asphere_coeff':
            o.set_asphere_coeff(op[3], op[1], op[2])
            ref.set_coeff(op[3], op[1], op[2])
        elif op[0] == 'var':
            _, vt, kw, scaled, val = op
            site = f'Variable[{vt}].update'
            cond = cond_base + f',scaled={scaled}'
            var = Variable(o, vt, apply_scaling=scaled, **kw)
            var.update(val)
            got = f1(var.value)
            if abs(got - val) > TOL * max(1.0, abs(val)):
                part.violation(PID, 'setter-reads-back', site, cond, det, observed=got, expected=val, tol=TOL)
                return False
            k = kw['surface_number']
            phys = val
            if scaled:
                phys = dict(radius=lambda x: (x + 1) * 100.0, thickness=lambda x: (x + 1) * 10.0, index=lambda x: x + 1.5,
                            asphere_coeff=lambda x: x / 10 ** (4 + 2 * kw.get('coeff_number', 0))).get(vt, lambda x: x)(val)
            if vt == 'radius':
                ref.set_radius(phys, k)
            elif vt == 'thickness':
                ref.set_thickness(phys, k)
            elif vt == 'conic':
                ref.set_conic(phys, k)
            elif vt == 'index':
                ref.set_index(phys, k)
                if k < len(ref.surf) - 1 and ref.surf[k + 1]['medium'] == 'mirror':
                    cond += ',mirror-follows'
            elif vt == 'asphere_coeff':
                ref.set_coeff(phys, k, kw['coeff_number'])
            elif vt in ('polynomial_coeff', 'chebyshev_coeff'):
                ref.set_coeff(phys, k, kw['coeff_index'])
            elif vt == 'tilt':
                ref.set_tilt(phys, k, kw['axis'])
            elif vt == 'decenter':
                ref.set_decenter(phys, k, kw['axis'])
        elif op[0] == 'pickup':
            _, src, attr, dst, sc, off = op
            site = 'PickupManager.add'
            if attr == 'thickness' and any(sv[0] == dst + 1 for sv in ref.solves):
                part.count('inadmissible-overconstrained-histories')
                return False
            o.pickups.add(src, attr, dst, scale=sc, offset=off)
            ref.pickups.append((src, attr, dst, sc, off))
            # adding a pickup applies it once
            if attr == 'radius':
                ref.set_radius(sc * ref.surf[src]['R'] + off, dst)
            elif attr == 'conic':
                ref.set_conic(sc * ref.surf[src]['k'] + off, dst)
            else:
                ref.set_thickness(sc * ref.t[src] + off, dst)
        elif op[0] == 'solve':
            site = 'SolveManager.add'
            if any(pk[1] == 'thickness' and pk[2] == op[1] - 1 for pk in ref.pickups):
                part.count('inadmissible-overconstrained-histories')
                return False        # a solve moving a thickness that is also a pickup target: over-constrained by construction
            o.solves.add('marginal_ray_height', op[1], op[2])
            ref.solves.append((op[1], op[2]))
            return check_solves(part, o, ref, [(op[1], op[2])], site, cond, det, state)
        elif op[0] == 'update':
            site = 'Optic.update'
            o.update()
            # reference: the pickup *law* must hold afterwards (fix point of an acyclic chain), whatever the registration order
            for _ in range(len(ref.pickups) + 1):
                ref.apply_pickups()
            ok = True
            for (src, attr, dst, sc, off) in ref.pickups:
                if attr == 'radius':
                    a, b = float(o.surface_group.surfaces[src].geometry.radius), float(o.surface_group.surfaces[dst].geometry.radius)
                elif attr == 'conic':
                    a, b = float(o.surface_group.surfaces[src].geometry.k), float(o.surface_group.surfaces[dst].geometry.k)
                else:
                    a, b = f1(o.surface_group.get_thickness(src)), f1(o.surface_group.get_thickness(dst))
                part.count('cmp:pickup')
                if abs(b - (sc * a + off)) > TOL * max(1.0, abs(a)):
                    me = ref.pickups.index((src, attr, dst, sc, off))
                    order = 'source-is-target-of-a-later-pickup' if any(p2[2] == src and p2[1] == attr and j_ > me
                                                                        for j_, p2 in enumerate(ref.pickups)) else 'in-dependency-order'
                    part.violation(PID, 'pickup-target-equals-scale-source-plus-offset', site, f'{cond_base},{order}', dict(det, pickup=[src, attr, dst, sc, off]),
                                   observed=b, expected=sc * a + off, tol=TOL)
                    ok = False
            if not ok:
                return False
            if ref.solves:
                return check_solves(part, o, ref, ref.solves, site, cond, det, state)
        elif op[0] == 'image_solve':
            site = 'Optic.image_solve'
            if not state.get('aperture_ok', True):
                return True
            o.image_solve()
            k = len(ref.surf) - 1
            sync_thickness_from_lib(o, ref, k)
            rows = ref_rows(ref)
            ys, us, _ = abcd.marginal(rows, state['ap'])
            part.count('cmp:solve')
            scale = max(1.0, abs(ys[0]), abs(state['ap'][1]))
            if any(abs(s_['y']) > 0 for s_ in ref.surf):
                part.count('solve-height-not-judged-decentred-state')
            elif not (abs(ys[-1]) <= 1e-9 * scale):
                part.violation(PID, 'image-solve-puts-image-at-paraxial-focus', site, cond, det, observed=ys[-1], expected=0.0, tol=1e-9)
                return False
        elif op[0] == 'add_wavelength':
            site = 'Optic.add_wavelength'
            o.add_wavelength(op[1], is_primary=op[2])
            ref.add_wavelength(op[1], op[2])
        else:
            raise ValueError(op)
    except Exception as exc:  # noqa
        s_ = lib_site(exc)
        if s_ == 'harness':
            raise
        part.violation(PID, 'valid-call-succeeds', site, cond + ',raises=' + type(exc).__name__, det, observed=exc_text(exc), expected='call succeeds')
        return False
    return compare(part, o, ref, site, cond, det)


def check_solves(part, o, ref, solves, site, cond, det, state):
    """Each marginal-ray-height solve places the paraxial marginal ray at the requested height: evaluated with the reference
    paraxial model on the prescription read back after the call; everything except the solved vertex positions must be as before."""
    for (k, h) in solves:
        sync_thickness_from_lib(o, ref, k)
    if not compare(part, o, ref, site, cond, det):
        return False
    if any(abs(s_['y']) > 0 for s_ in ref.surf):
        # a surface decentred in y: the library's paraxial ray is referred to the decentred vertex, which is not the matrix-optics
        # ray of the reference model; the height clause is judged on centred states only
        part.count('solve-height-not-judged-decentred-state')
        return True
    rows = ref_rows(ref)
    ys, us, _ = abcd.marginal(rows, state['ap'])
    for (k, h) in solves:
        part.count('cmp:solve')
        got = ys[k - 1]
        scale = max(1.0, abs(ys[0]))
        if not (abs(got - h) <= 1e-9 * scale):
            powered = abs(abcd.curvature(rows[k])) > 0 and abs(rows[k]['n_post'] - rows[k]['n_pre']) > 0 or rows[k]['mirror']
            part.violation(PID, 'solve-places-marginal-ray-at-requested-height', site,
                           f"{cond},{'interior-powered-surface' if (powered and k < len(rows) - 1) else 'unpowered-or-image-surface'}",
                           dict(det, solve=[k, h]), observed=got, expected=h, tol=1e-9)
            return False
    return True


def canon_state(o, ref):
    return digest([obs_lib(o), [list(p_) for p_ in ref.pickups], [list(s_) for s_ in ref.solves]], 16)


def run_solve_interplay(part, unit):
    """Solves whose marginal ray depends on the gap they set, and a pickup whose source gap is set by a solve."""
    p = V(unit['variant'])
    g5, g6, g7 = ['ideal', 1.5, 0.0], ['ideal', 1.6, 0.0], ['ideal', 1.7, 0.0]

    def gaps(o):
        z = np.asarray(o.surface_group.positions, float).ravel()
        return np.diff(z)

    def ref_height(sp, o, k):
        sp2 = copy.deepcopy(sp)
        t = gaps(o)
        for i, s_ in enumerate(sp2['surfs']):
            s_['t'] = float(t[i + 1])
            s_['R'] = float(o.surface_group.surfaces[i + 1].geometry.radius)
        rows = prescription.rows(sp2, lambda m, prev: LZ.ref_index(m, 0.55, prev))
        ys, us, _ = abcd.marginal(rows, tuple(sp2['ap']))
        return ys[k - 1]
    # (a) interior solve, aperture or conjugate that makes the marginal ray depend on the solved gap
    base = [S('sphere', R=50.0, mat=g5, t=5.0), S('sphere', R=-50.0, mat='air', t=20.0), S('sphere', R=40.0, mat=g7, t=4.0, stop=True),
            S('sphere', R=-80.0, mat='air', t=30.0)]
    for name, obj, ap, h in (('image-F/#', LZ.INF, ('imageFNO', 5.0), 1.5), ('finite-object,stop-behind-the-gap', 100.0, ('EPD', 10.0), 2.58),
                             ('infinite-object,EPD (control)', LZ.INF, ('EPD', 10.0), 2.0)):
        sp = LZ.spec(base, obj=obj, ap=ap, ftype='angle', fields=(0.0,), waves=((0.55, True),))
        o = LZ.build(sp)
        part.states += 1
        o.solves.add('marginal_ray_height', 3, h)
        o.update()
        part.transitions += 2
        part.evals += 1
        got = ref_height(sp, o, 3)
        part.count('cmp:solve')
        if abs(got - h) > 1e-8 * max(1.0, abs(h)):
            part.violation(PID, 'solve-places-marginal-ray-at-requested-height', 'MarginalRayHeightSolve.apply',
                           'marginal-ray-depends-on-the-solved-gap' if 'control' not in name else 'marginal-ray-independent-of-the-gap',
                           dict(case=name, surface=3, gaps=[float(v) for v in gaps(o)[1:]]), observed=float(got), expected=h, tol=1e-8)
        part.outcome('solve', name, round(float(got), 9))
    # (b) a thickness pickup whose source gap is set by a solve; an upstream edit; update()
    surfs = [S('sphere', R=60.0, mat=g5, t=4.0, stop=True), S('sphere', R=-60.0, mat='air', t=30.0), S('plane', mat='air', t=10.0),
             S('sphere', R=-40.0, mat=g6, t=2.0), S('plane', mat='air', t=30.0)]
    sp = LZ.spec(surfs, obj=LZ.INF, ap=('EPD', 10.0), ftype='angle', fields=(0.0,), waves=((0.55, True),))
    for order in ('solve-first', 'pickup-first'):
        o = LZ.build(sp)
        part.states += 1
        if order == 'solve-first':
            o.solves.add('marginal_ray_height', 3, 2.0)
            o.pickups.add(2, 'thickness', 5, scale=0.5, offset=1.0)
        else:
            o.pickups.add(2, 'thickness', 5, scale=0.5, offset=1.0)
            o.solves.add('marginal_ray_height', 3, 2.0)
        o.set_radius(70.0, 1)
        o.update()
        part.transitions += 4
        part.evals += 1
        t = gaps(o)
        part.count('cmp:pickup')
        if abs(t[5] - (0.5 * t[2] + 1.0)) > 1e-9 * max(1.0, abs(t[2])):
            part.violation(PID, 'pickup-target-equals-scale-source-plus-offset', 'Optic.update', 'source-gap-is-set-by-a-solve',
                           dict(registration=order, history=['solve(3, 2.0)', 'pickup(thickness 2 -> 5, 0.5, 1.0)', 'set_radius(70, 1)', 'update']),
                           observed=float(t[5]), expected=float(0.5 * t[2] + 1.0), tol=1e-9)
        part.outcome('pickup-after-solve', order, round(float(t[5]), 9))
    part.sample(dict(kind='solve-interplay'))


def run_edits(part, unit):
    v = unit['variant']
    p = V(v)
    name = unit['lens']
    obj, surfs = initial_lenses(v)[name]
    ops = edit_alphabet(name, v)
    allowed = unit.get('restrict') or list(range(len(ops)))
    ap = ('EPD', p['epd'])
    ftype = 'angle' if math.isinf(obj) else 'object_height'
    sp = LZ.spec(surfs, obj=obj, ap=ap, ftype=ftype, fields=(0.0, p['ang'] if math.isinf(obj) else p['h']), waves=((0.55, True),))
    if name in ('shared-glass', 'shared-coeffs'):
        sp['share_materials'] = True

    def fresh():
        o = LZ.build(sp)
        ref = RefLens(obj)
        for s in surfs:
            ref.add_surface(s)
        ref.add_surface(S('plane', mat='air', t=0.0))
        ref.add_wavelength(0.55, True)
        return o, ref
    state = dict(ap=ap)
    o0, r0 = fresh()
    if not compare(part, o0, r0, 'construction', 'edit-history', dict(lens=name, variant=v)):
        return
    seen = set()
    # depth-first over histories that start with ops[first]; canonical-state de-duplication per depth
    frontier = [([unit['first']], None)]
    depth = unit['depth']
    while frontier:
        hist, _ = frontier.pop()
        o, ref = fresh()
        ok = True
        for step, i in enumerate(hist):
            det = dict(lens=name, history=[list(ops[j]) if not isinstance(ops[j][2] if len(ops[j]) > 2 else None, dict) else [ops[j][0], ops[j][1], ops[j][2], ops[j][3], ops[j][4]]
                                           for j in hist[:step + 1]], variant=v)
            last = (step == len(hist) - 1)
            if last:
                part.transitions += 1
                part.evals += 1
                ok = apply_op(part, o, ref, ops[i], state, det, 'edit-history')
            else:
                # prefix already verified when it was itself the end of a history: replay without re-reporting
                sub = Part(None)
                ok = apply_op(sub, o, ref, ops[i], state, det, 'edit-history')
            if not ok:
                break
        if not ok:
            continue
        part.states += 1
        key = (len(hist), canon_state(o, ref))
        if key in seen:
            part.count('merged-states')
            continue
        seen.add(key)
        part.outcome(name, key[1])
        if len(hist) < depth:
            for j in allowed:
                frontier.append((hist + [j], None))
    part.sample(dict(lens=name, first=list(ops[unit['first']])[:3], depth=depth))


def run_unit(unit):
    part = Part(unit)
    {'construct': run_construct, 'wavelengths': run_wavelengths, 'edits': run_edits, 'solve-interplay': run_solve_interplay}[unit['kind']](part, unit) if unit['kind'] != 'insert-remove' \
        else run_insert_remove(part, unit)
    return part
