"""C18 - catalogue materials return the index their data file defines  (finite domain = the catalogue).

Every one of the 2593 rows of database/catalog_nk.csv is loaded through MaterialFile and evaluated at a wavelength
menu spanning its stated range, scalar and array, against vmc.ref.rii; every distinct catalogue name is used as an
exact-name query; every glass row covering d/F/C gets its Abbe number checked; model glasses over a (n_d, V_d) lattice.
"""
import csv
import math
import os

import numpy as np

from vmc import core
from vmc.core import Part
from vmc.ref import rii

PID = 'C18'
META = dict(
    rule='unit = block of 40 catalogue rows / 40 name queries / the model-glass lattice; evaluation = one n() or k() or '
         'lookup call; non-trivial = finite index; distinct = (file, wavelength) pairs with distinct rounded n',
    exhaustive=True,
    bounds=dict(quick='all 2593 rows x {min, 1/4, mid, 3/4, max} scalar + array; every distinct category_name and every '
                      'distinct name as a query; Abbe on every row covering d,F,C; model glass on all ~1550 catalogue glasses of the core glass map',
                thorough='33 log-spaced wavelengths per row; additionally every (name, reference) pair as a query'),
    tolerances=dict(formula='1e-10 relative', abbe='1e-9', model_glass='n_d 2e-3, V_d 10 percent on the core glass map (accuracy of the published fit, measured once: 5.3e-4 and 9 percent)'),
    assumptions=['refractiveindex.info formula definitions as re-implemented in vmc/ref/rii.py', 'PyYAML'],
)

DB = os.path.join(core.REPO, 'database')


def catalogue():
    with open(os.path.join(DB, 'catalog_nk.csv'), newline='', encoding='utf-8') as f:
        return list(csv.DictReader(f))


def units(tier, variant):
    rows = catalogue()
    out = []
    B = 40
    for i in range(0, len(rows), B):
        out.append(dict(kind='rows', lo=i, hi=min(len(rows), i + B), tier=tier))
    cats = sorted(set(r['category_name'] for r in rows))
    names = sorted(set(r['name'] for r in rows))
    qs = [('category_name', c) for c in cats] + [('name', n) for n in names]
    for i in range(0, len(qs), B):
        out.append(dict(kind='lookup', queries=qs[i:i + B]))
    # (name, reference) pairs whose reference is contained in the reference of another row of the same name
    by_name = {}
    for r in rows:
        by_name.setdefault(r['category_name'], set()).add(str(r['reference']))
    amb = sorted((n_, a_) for n_, refs in by_name.items() for a_ in refs for b_ in refs if a_ != b_ and a_.lower() in b_.lower())
    if amb:
        out.append(dict(kind='lookup2', queries=amb))
    if tier == 'thorough':
        pairs = sorted(set((r['category_name'], r['reference']) for r in rows))
        for i in range(0, len(pairs), B):
            out.append(dict(kind='lookup2', queries=pairs[i:i + B]))
    out.append(dict(kind='model'))
    return out


def wl_menu(lo, hi, tier):
    if tier == 'quick':
        return np.array([lo, lo + 0.25 * (hi - lo), 0.5 * (lo + hi), lo + 0.75 * (hi - lo), hi])
    return np.exp(np.linspace(math.log(lo), math.log(hi), 33))


def run_rows(part, unit):
    from optiland.materials import MaterialFile
    rows = catalogue()[unit['lo']:unit['hi']]
    for r in rows:
        path = os.path.join(DB, 'data-nk', r['filename'])
        rel = r['filename']
        part.states += 1
        try:
            ref = rii.load(path)
        except Exception as exc:  # unreadable by the reference too: nothing to decide
            part.count('reference-cannot-read-file')
            continue
        if ref['formula'] is None and ref['n_table'] is None:
            part.count('rows-without-dispersion-relation')
            continue
        lo, hi = float(r['min_wavelength']), float(r['max_wavelength'])
        ws = wl_menu(lo, hi, unit['tier'])
        if ref.get('unsorted'):
            # rows out of wavelength order, or a wavelength listed twice: sample the middle of every interval of the (sorted) tables
            part.count('tables-with-rows-out-of-order-or-repeated')
            for tb in (ref.get('n_table'), ref.get('k_table')):
                if tb is not None and len(tb[0]) > 1:
                    x_ = np.unique(tb[0])
                    mids = 0.5 * (x_[1:] + x_[:-1])
                    ws = np.concatenate([ws, mids[(mids >= lo) & (mids <= hi)]])
        c = f'file={rel}'
        try:
            m = MaterialFile(path)
            part.transitions += 1
        except Exception as exc:
            part.evals += 1
            part.violation(PID, 'entry-loads', 'MaterialFile.__init__', c, dict(kinds=ref['kinds']),
                           observed=core.exc_text(exc), expected='entry with a dispersion relation loads')
            continue
        kind = f"formula {ref['formula']}" if ref['formula'] else 'tabulated'
        cf = f'kind={kind}'
        nref = rii.n(ref, ws)
        try:
            got_s = np.array([float(np.ravel(m.n(float(w)))[0]) for w in ws])
            got_a = np.asarray(m.n(ws.copy()), dtype=float)
            part.transitions += len(ws) + 1
            part.evals += len(ws) + 1
        except Exception as exc:
            part.evals += 1
            part.violation(PID, 'index-evaluates', 'MaterialFile.n', cf, dict(file=rel, coeffs=len(ref['coeffs'] or [])),
                           observed=core.exc_text(exc), expected=nref[:3])
            continue
        ok = np.isfinite(nref)
        if np.any(ok):
            e = np.abs(got_s[ok] - nref[ok]) / np.maximum(1.0, np.abs(nref[ok]))
            if not np.all(e <= 1e-10):
                i = int(np.nanargmax(np.where(np.isnan(e), np.inf, e)))
                part.violation(PID, 'index-equals-file-definition', 'MaterialFile.n', cf,
                               dict(file=rel, wavelength=float(ws[ok][i])), observed=float(got_s[ok][i]),
                               expected=float(nref[ok][i]), tol=1e-10)
        if got_a.shape != got_s.shape or not np.array_equal(np.isnan(got_a), np.isnan(got_s)) or \
                not np.allclose(got_a[ok], got_s[ok], rtol=1e-13, atol=0):
            part.violation(PID, 'scalar-equals-array', 'MaterialFile.n', cf, dict(file=rel), observed=got_a[:3],
                           expected=got_s[:3])
        wi = [w_ for w_ in (1, 2, 5, 10) if lo <= w_ <= hi]
        if wi:
            try:
                gi = np.asarray(m.n(np.array(wi)), dtype=float)        # integer array
                gf = np.array([float(np.ravel(m.n(float(w_)))[0]) for w_ in wi])
                part.evals += 1
                if gi.shape != gf.shape or not np.allclose(gi, gf, rtol=1e-13, atol=0):
                    part.violation(PID, 'scalar-equals-array', 'MaterialFile.n', cf + ',integer-wavelengths', dict(file=rel, wavelengths=wi), observed=gi[:3], expected=gf[:3])
            except Exception as exc:
                part.violation(PID, 'scalar-equals-array', 'MaterialFile.n', cf + ',integer-wavelengths', dict(file=rel, wavelengths=wi),
                               observed=core.exc_text(exc), expected='same values as for float wavelengths')
        kref = rii.k(ref, ws)
        if kref is not None:
            try:
                gk = np.array([float(np.ravel(m.k(float(w)))[0]) for w in ws])
                gka = np.asarray(m.k(ws.copy()), dtype=float)
                part.evals += len(ws) + 1
                if not np.allclose(gk, kref, rtol=1e-10, atol=1e-300) or not np.allclose(gka, gk, rtol=1e-13, atol=0):
                    part.violation(PID, 'k-equals-file-table', 'MaterialFile.k', cf, dict(file=rel), observed=gk[:3],
                                   expected=kref[:3], tol=1e-10)
            except Exception as exc:
                part.violation(PID, 'k-evaluates', 'MaterialFile.k', cf, dict(file=rel), observed=core.exc_text(exc),
                               expected=kref[:3])
        # Abbe number where the row covers d, F, C
        if lo <= 0.4861327 and hi >= 0.6562725 and r['group'] == 'glass':
            nd, nF, nC = (float(rii.n(ref, w)) for w in (0.5875618, 0.4861327, 0.6562725))
            if nF != nC:
                vref = (nd - 1) / (nF - nC)
                v = float(np.ravel(m.abbe())[0])
                part.evals += 1
                if abs(v - vref) > 1e-9 * max(1.0, abs(vref)):
                    part.violation(PID, 'abbe-number', 'BaseMaterial.abbe', cf, dict(file=rel), observed=v, expected=vref,
                                   tol=1e-9)
        part.outcome(rel, got_s[:3])
    part.sample(dict(rows=[unit['lo'], unit['hi']], first=rows[0]['filename']))


def run_lookup(part, unit):
    from optiland.materials import Material
    import io
    import contextlib
    for col, q in unit['queries']:
        part.evals += 1
        part.transitions += 1
        part.states += 1
        meta = 'has-regex-metachar' if any(ch in q for ch in '()[]{}+*?^$|\\') else 'plain'
        c = f'query={col},{meta}'
        try:
            with contextlib.redirect_stdout(io.StringIO()):
                m = Material(q)
            got = m.material_data
        except Exception as exc:
            if 'Multiple refractive index formulas' in str(exc):
                c = 'matched-entry-does-not-load(formula+tabulated nk)'
            part.violation(PID, 'exact-name-lookup', 'Material.__init__', c, dict(query=q), observed=core.exc_text(exc),
                           expected=f'an entry whose {col} is the query')
            continue
        if got.get(col) != q:
            if str(got.get('category_name', '')).lower() == q.lower() or str(got.get('name', '')).lower() == q.lower():
                c += ',differs-only-in-letter-case'
            part.violation(PID, 'exact-name-lookup', 'Material.__init__', c, dict(query=q),
                           observed=dict(category_name=got.get('category_name'), name=got.get('name')),
                           expected=f'an entry whose {col} is the query')
        part.outcome(col, q)
    part.sample(dict(queries=[q for _, q in unit['queries'][:3]]))


def run_lookup2(part, unit):
    from optiland.materials import Material
    import io
    import contextlib
    for cat, refname in unit['queries']:
        part.evals += 1
        part.transitions += 1
        part.states += 1
        meta = 'has-regex-metachar' if any(ch in (cat + refname) for ch in '()[]{}+*?^$|\\') else 'plain'
        c = f'query=category_name+reference,{meta}'
        try:
            with contextlib.redirect_stdout(io.StringIO()):
                m = Material(cat, reference=refname)
            got = m.material_data
        except Exception as exc:
            if 'Multiple refractive index formulas' in str(exc):
                c = 'matched-entry-does-not-load(formula+tabulated nk)'
            part.violation(PID, 'exact-name-lookup', 'Material.__init__', c, dict(query=[cat, refname]),
                           observed=core.exc_text(exc), expected='an entry with that category_name')
            continue
        if got.get('category_name') != cat:
            part.violation(PID, 'exact-name-lookup', 'Material.__init__', c, dict(query=[cat, refname]),
                           observed=dict(category_name=got.get('category_name'), reference=got.get('reference')),
                           expected='an entry with that category_name')
        elif str(got.get('reference')) != refname:
            # (name, reference) names one catalogue row exactly: that row is the answer, not one whose reference merely contains it
            part.violation(PID, 'exact-name-and-reference-lookup', 'Material.__init__', 'query=category_name+reference,reference-is-substring-of-another',
                           dict(query=[cat, refname]), observed=dict(category_name=got.get('category_name'), reference=got.get('reference')),
                           expected=dict(category_name=cat, reference=refname))
        part.outcome(cat, refname)
    part.sample(dict(queries=unit['queries'][:2]))


def run_model(part, unit):
    """Model glass on every catalogue glass (n_d, V_d) of the core glass-map region n_d in [1.45,1.95], V_d in [25,75].
    Accuracy of the published fit measured once on the unchanged tree over these 1550 glasses: n_d within 5.3e-4,
    V_d within 9 percent; frozen as 2e-3 and 10 percent. (Above V_d 85 the model is off by tens of percent; that
    region is outside the frozen accuracy statement and is not judged.)"""
    from optiland.materials import AbbeMaterial
    part.states += 1
    for r in catalogue():
        if r['group'] != 'glass':
            continue
        lo, hi = float(r['min_wavelength']), float(r['max_wavelength'])
        if lo > 0.4861327 or hi < 0.6562725:
            continue
        try:
            e = rii.load(os.path.join(DB, 'data-nk', r['filename']))
        except Exception:
            continue
        nd, nF, nC = (float(rii.n(e, w)) for w in (0.5875618, 0.4861327, 0.6562725))
        if not (np.isfinite(nd) and nF != nC):
            continue
        vd = (nd - 1) / (nF - nC)
        if not (1.45 <= nd <= 1.95 and 25.0 <= vd <= 75.0):
            continue
        m = AbbeMaterial(nd, vd)
        part.evals += 1
        part.transitions += 1
        n_d = float(m.n(0.5875618))
        v = float((m.n(0.5875618) - 1) / (m.n(0.4861327) - m.n(0.6562725)))
        # scalar and array evaluation agree
        arr = np.asarray(m.n(np.array([0.4861327, 0.5875618, 0.6562725])), dtype=float)
        det = dict(glass=r['filename'], nd=nd, vd=vd)
        if abs(arr[1] - n_d) > 1e-13:
            part.violation(PID, 'scalar-equals-array', 'AbbeMaterial.n', 'model', det, observed=arr[1], expected=n_d)
        if abs(n_d - nd) > 2e-3:
            part.violation(PID, 'model-glass-nd', 'AbbeMaterial.n', 'model', det, observed=n_d, expected=nd, tol=2e-3)
        if abs(v - vd) > 0.10 * vd:
            part.violation(PID, 'model-glass-vd', 'AbbeMaterial.n', 'model', det, observed=v, expected=vd, tol=0.10)
        part.outcome(round(nd, 4), round(vd, 2), n_d)
    part.sample(dict(model_lattice='every catalogue glass with n_d in [1.45,1.95] and V_d in [25,75]'))


def run_unit(unit):
    part = Part(unit)
    dict(rows=run_rows, lookup=run_lookup, lookup2=run_lookup2, model=run_model)[unit['kind']](part, unit)
    return part
