"""C12 - geometric analyses are faithful functions of the traced rays.

Construction LTS over imaging words x every stop position x {infinite/angle, finite/height}; in every state the analysis
classes are called with a menu of field / wavelength arguments ('all', explicit list equal to the lens's, strict subset,
list without the primary wavelength) and every reported number is recomputed from independently issued traces, from the
reference paraxial model (distortion) or from Coddington's equations along the real chief ray (field curvature).
"""
import copy
import math

import numpy as np

from vmc import lens as LZ
from vmc.core import Part, exc_text, lib_site
from vmc.lens import S, V
from vmc.ref import abcd, prescription, geom
from vmc.props import c09
from vmc.props.c07 import medium_after

PID = 'C12'
TOL = 1e-9
META = dict(
    rule='unit = lens word x stop position; evaluation = one analysis call compared with its recomputation; non-trivial = finite '
         'non-zero values; distinct = rounded result vectors',
    exhaustive=True,
    bounds=dict(quick='imaging words depth<=2 over 8 symbols, every stop, 2 object/field kinds; wavelength-argument menu '
                      "{'all', equal list, subset with primary, subset without primary, reordered}; field-argument menu {'all', subset, extra field}",
                thorough='depth<=3 over 5 symbols added, 4 numeric variants'),
    tolerances=dict(recomputation='1e-9 relative', distortion='0.02 percentage points', coddington='2e-4 mm + 3e-4 relative (the library differentiates closely spaced rays numerically)'),
    assumptions=['paraxial image height from vmc.ref.abcd', "Coddington's equations with local curvatures from vmc.ref.geom"],
)

W3 = ((0.4861, False), (0.5876, True), (0.6563, False))


def units(tier, variant):
    A = c09.alphabet(variant)
    ws = list(LZ.words(A, 1, 2))
    if tier == 'thorough':
        ws += list(LZ.words(A[:5], 3, 3))
    else:
        ws += [(4, 0, 1), (4, 2, 1)]        # lenses whose outer field fails completely (found by the thorough tier)
    out = []
    for w in ws:
        surfs = [A[i] for i in w]
        if medium_after(dict(surfs=surfs), len(surfs) - 1) != 'air':
            continue
        for s in range(len(w)):
            for ok in (0, 1):
                out.append(dict(word=list(w), stop=s, variant=variant, objkind=ok))
    return out


def same(part, clause, site, cond, det, got, ref, tol=TOL, nan_equal=True):
    got = np.asarray(got, dtype=float)
    ref = np.asarray(ref, dtype=float)
    part.count('cmp:' + clause)
    if got.shape != ref.shape:
        part.violation(PID, clause, site, cond, det, observed=list(got.shape), expected=list(ref.shape))
        return False
    fa, fb = np.isfinite(got), np.isfinite(ref)
    if not np.array_equal(fa, fb):
        part.violation(PID, clause, site, cond, det, observed='finite pattern differs (got %d finite, expected %d)' % (fa.sum(), fb.sum()),
                       expected='same samples valid')
        return False
    if np.any(fa):
        sc = np.maximum(1.0, np.abs(ref[fa])) if tol <= 1e-6 else 1.0
        e = np.abs(got[fa] - ref[fa]) / sc
        if np.max(e) > tol:
            i = int(np.argmax(e))
            part.violation(PID, clause, site, cond, dict(det, sample=i), observed=float(got[fa][i]), expected=float(ref[fa][i]), tol=tol)
            return False
        part.count('nontrivial')
    return True


def guarded(part, clause, site, cond, det, fn):
    """Valid analysis calls must succeed: an exception is a violation of the clause being evaluated."""
    try:
        return fn()
    except Exception as exc:  # noqa
        part.count('cmp:' + clause)
        part.violation(PID, clause, site, cond + ',raises=' + type(exc).__name__, det, observed=exc_text(exc), expected='analysis result')
        return None


def spot(o, Hx, Hy, w, n, dist):
    o.trace(Hx, Hy, w, n, dist)
    sg = o.surface_group
    return (np.asarray(sg.x[-1], float).copy(), np.asarray(sg.y[-1], float).copy(), np.asarray(sg.intensity[-1], float).copy())


def coddington(rows, o, Hy, w):
    """Tangential and sagittal focus (z offset from the image-surface intersection) along the real chief ray."""
    o.trace_generic(0.0, Hy, 0.0, 0.0, w)
    sg = o.surface_group
    P = np.stack([np.asarray(sg.x, float)[:, 0], np.asarray(sg.y, float)[:, 0], np.asarray(sg.z, float)[:, 0]], axis=1)
    D = np.stack([np.asarray(sg.L, float)[:, 0], np.asarray(sg.M, float)[:, 0], np.asarray(sg.N, float)[:, 0]], axis=1)
    if not (np.all(np.isfinite(P)) and np.all(np.isfinite(D))):
        return None
    ns = len(rows)
    inv_s = inv_t = None
    if math.isinf(rows[0]['z']):
        inv_s = inv_t = 0.0
        n_cur = rows[0]['n_post']
    else:
        d0 = float(np.linalg.norm(P[1] - P[0]))
        inv_s = inv_t = -1.0 / d0
        n_cur = rows[0]['n_post']
    for k in range(1, ns - 1):
        row = rows[k]
        Pl, Din = geom.to_local(row, P[k][None], D[k - 1][None])
        _, Dout = geom.to_local(row, P[k][None], D[k][None])
        nrm = geom.normal(row, Pl[:, 0], Pl[:, 1])[0]
        cosI = abs(float(np.dot(Din[0], nrm)))
        cosIp = abs(float(np.dot(Dout[0], nrm)))
        n1, n2 = row['n_pre'], row['n_post']
        # local curvatures of the surface of revolution at radial height r (meridional = tangential section)
        r = float(np.hypot(Pl[0, 0], Pl[0, 1]))
        h = 1e-4 * max(1.0, abs(row['R']) if math.isfinite(row['R']) else 1.0) * 1e-2
        f = lambda rr: float(np.real(geom.sag(row, np.array([0.0]), np.array([rr]))[0]))  # noqa
        z1 = (f(r + h) - f(r - h)) / (2 * h)
        z2 = (f(r + h) - 2 * f(r) + f(r - h)) / (h * h)
        kt = z2 / (1 + z1 * z1) ** 1.5
        ks = (z1 / (r * math.sqrt(1 + z1 * z1))) if r > 1e-9 else z2
        # sign of the curvature as seen along the direction of travel is carried by cos terms with the sign of D.z in local frame
        sgn = 1.0 if Din[0, 2] >= 0 else -1.0
        kt, ks = kt * sgn, ks * sgn
        pw = n2 * cosIp - n1 * cosI
        inv_sp = (n1 * inv_s + pw * ks) / n2
        inv_tp = (n1 * cosI ** 2 * inv_t + pw * kt) / (n2 * cosIp ** 2)
        dist = float(np.linalg.norm(P[k + 1] - P[k]))
        # transfer to the next surface: s_next = s' - dist
        def xfer(inv):
            if inv == 0.0:
                return 0.0
            sp = 1.0 / inv
            return 1.0 / (sp - dist) if abs(sp - dist) > 1e-12 else float('inf')
        if k < ns - 2:
            inv_s, inv_t = xfer(inv_sp), xfer(inv_tp)
        else:
            s_img = (1.0 / inv_sp - dist) if inv_sp != 0 else float('inf')
            t_img = (1.0 / inv_tp - dist) if inv_tp != 0 else float('inf')
            Nimg = D[k][2]
            return t_img * Nimg, s_img * Nimg
        n_cur = n2
    return None


def run_unit(unit):
    from optiland import analysis as AN
    from optiland.optimization.operand import RayOperand
    import matplotlib.pyplot as plt
    part = Part(unit)
    v = unit['variant']
    p = V(v)
    A = c09.alphabet(v)
    base = LZ.with_stop(LZ.fix_thickness_signs([A[i] for i in unit['word']]), unit['stop'])
    has_mirror = any(s_['mat'] == 'mirror' for s_ in base)
    for obj, ft, mf in [((LZ.INF, 'angle', p['ang']), (p['od'][0], 'object_height', p['h']))[unit['objkind']]]:
        sp = LZ.spec(base, obj=obj, ap=('EPD', p['epd']), ftype=ft, fields=(0.0, 0.7 * mf, mf), waves=W3)
        rows0 = prescription.rows(sp, lambda m, prev: LZ.ref_index(m, 0.5876, prev))
        if abcd.pupil_degenerate(rows0):
            part.count('skipped-telecentric-pupil')
            continue
        ys, us, _ = abcd.marginal(rows0, ('EPD', p['epd']))
        if abs(us[-2]) < 1e-6:
            part.count('skipped-afocal')
            continue
        shift = -ys[-1] / us[-2]
        nm_ = sum(1 for s_ in base if s_['mat'] == 'mirror')
        tsign = -1.0 if nm_ % 2 else 1.0
        sp['surfs'][-1]['t'] = sp['surfs'][-1]['t'] + shift
        if not math.isfinite(shift) or abs(shift) > 2e3 or sp['surfs'][-1]['t'] * tsign < 0.3:
            part.count('skipped-virtual-image')
            continue
        o = LZ.build(sp)
        part.states += 1
        rows = prescription.rows(sp, lambda m, prev: LZ.ref_index(m, 0.5876, prev))
        epl = abcd.EPL(rows)
        if not math.isfinite(epl) or abs(epl) > 1e6:
            part.count('skipped-telecentric-pupil')
            continue
        okind = 'infinite' if math.isinf(obj) else 'finite'
        cond0 = f'object={okind},field={ft}'
        det0 = dict(word=unit['word'], stop=unit['stop'], variant=v, obj=obj)
        lens_w = [0.4861, 0.5876, 0.6563]
        lens_f = [tuple(float(q) for q in fc_) for fc_ in o.fields.get_field_coords()]
        wl_menu = [('all', 'all', lens_w), ('equal', list(lens_w), lens_w), ('subset-with-primary', [0.5876, 0.6563], [0.5876, 0.6563]),
                   ('reordered', [0.6563, 0.4861, 0.5876], [0.6563, 0.4861, 0.5876]), ('without-primary', [0.4861, 0.6563], [0.4861, 0.6563])]
        f_menu = [('all', 'all', lens_f), ('subset', [(0.0, 1.0)], [(0.0, 1.0)]), ('other', [(0.0, 0.35), (0.0, -0.6)], [(0.0, 0.35), (0.0, -0.6)])]
        if unit['stop'] != 0:
            wl_menu, f_menu = wl_menu[:1] + wl_menu[3:4], f_menu[:2]
        # ---------------- SpotDiagram family ----------------------------------------------------------------------------
        for wname, warg, wlist in wl_menu:
            for fname, farg, flist in f_menu:
                pidx = ('same-index' if (0.5876 in wlist and wlist.index(0.5876) == 1) else ('other-index' if 0.5876 in wlist else 'absent'))
                cond = f'primary-wavelength-in-list={pidx}'
                det = dict(det0, wavelengths=wname, fields=fname)
                sd = guarded(part, 'spot-diagram-data', 'SpotDiagram', cond, det,
                             lambda: AN.SpotDiagram(o, fields=farg, wavelengths=warg, num_rings=3, distribution='hexapolar'))
                part.transitions += 1
                part.evals += 1
                if sd is None:
                    continue
                ref = [[spot(o, fx, fy, w, 3, 'hexapolar') for w in wlist] for (fx, fy) in flist]
                ok = True
                for i in range(len(flist)):
                    for j in range(len(wlist)):
                        for q, nm in enumerate(('x', 'y', 'intensity')):
                            ok &= same(part, 'spot-diagram-data', 'SpotDiagram', cond, dict(det, field=i, wave=j, q=nm), sd.data[i][j][q], ref[i][j][q])
                if not ok:
                    continue
                if 0.5876 in wlist:
                    jp = wlist.index(0.5876)
                    cref = [(float(np.mean(ref[i][jp][0])), float(np.mean(ref[i][jp][1]))) for i in range(len(flist))]
                    cen = guarded(part, 'centroid-on-primary-wavelength', 'SpotDiagram.centroid', cond, det, lambda: sd.centroid())
                    if cen is not None:
                        same(part, 'centroid-on-primary-wavelength', 'SpotDiagram.centroid', cond, det, np.array(cen, float), np.array(cref, float))
                    rref = [[math.sqrt(float(np.mean((ref[i][j][0] - cref[i][0]) ** 2 + (ref[i][j][1] - cref[i][1]) ** 2))) for j in range(len(wlist))]
                            for i in range(len(flist))]
                    gref = [[float(np.max(np.hypot(ref[i][j][0] - cref[i][0], ref[i][j][1] - cref[i][1]))) for j in range(len(wlist))]
                            for i in range(len(flist))]
                    r1 = guarded(part, 'rms-spot-radius', 'SpotDiagram.rms_spot_radius', cond, det, lambda: sd.rms_spot_radius())
                    if r1 is not None:
                        same(part, 'rms-spot-radius', 'SpotDiagram.rms_spot_radius', cond, det, np.array(r1, float), np.array(rref))
                    g1 = guarded(part, 'geometric-spot-radius', 'SpotDiagram.geometric_spot_radius', cond, det, lambda: sd.geometric_spot_radius())
                    if g1 is not None:
                        same(part, 'geometric-spot-radius', 'SpotDiagram.geometric_spot_radius', cond, det, np.array(g1, float), np.array(gref))
                    # the stored data are still the ray hits after the derived quantities were asked for
                    same(part, 'spot-data-unchanged-by-queries', 'SpotDiagram', cond, det, sd.data[-1][-1][1], ref[-1][-1][1])
                    part.outcome(unit['word'], unit['stop'], okind, wname, fname, np.nan_to_num(np.array(rref)).ravel()[:4])
                # ---- ray fans ------------------------------------------------------------------------------------------------
                npts = 5
                rf = guarded(part, 'ray-fan', 'RayFan', cond, det, lambda: AN.RayFan(o, fields=farg, wavelengths=warg, num_points=npts))
                part.transitions += 1
                part.evals += 1
                if rf is not None:
                    for (fx, fy) in flist:
                        cx = spot(o, fx, fy, 0.5876, npts, 'line_x')[0][npts // 2]
                        cy = spot(o, fx, fy, 0.5876, npts, 'line_y')[1][npts // 2]
                        for w in wlist:
                            ex = spot(o, fx, fy, w, npts, 'line_x')[0] - cx
                            ey = spot(o, fx, fy, w, npts, 'line_y')[1] - cy
                            got = rf.data[f'{(fx, fy)}'][f'{w}']
                            same(part, 'ray-fan', 'RayFan', cond, dict(det, field=[fx, fy], wave=w, axis='x'), got['x'], ex)
                            same(part, 'ray-fan', 'RayFan', cond, dict(det, field=[fx, fy], wave=w, axis='y'), got['y'], ey)
        # ---------------- encircled energy -----------------------------------------------------------------------------------
        det = dict(det0)
        ee = guarded(part, 'encircled-energy', 'EncircledEnergy', cond0, det,
                     lambda: AN.EncircledEnergy(o, fields='all', wavelength=0.5876, num_rays=4, distribution='hexapolar', num_points=40))
        part.transitions += 1
        part.evals += 1
        if ee is not None:
            plt.close('all')
            orig = plt.show
            plt.show = lambda *a, **k: None
            try:
                guarded(part, 'encircled-energy', 'EncircledEnergy.view', cond0, det, lambda: ee.view())
                lines = plt.gcf().axes[0].get_lines() if plt.get_fignums() else []
                curves = [(np.asarray(l.get_xdata(), float), np.asarray(l.get_ydata(), float)) for l in lines]
            finally:
                plt.show = orig
                plt.close('all')
            for i, (fx, fy) in enumerate(lens_f):
                if i >= len(curves):
                    break
                x, y, e = spot(o, fx, fy, 0.5876, 4, 'hexapolar')
                rr, yy = curves[i]
                part.count('cmp:encircled-energy')
                if len(yy) == 0 or np.any(np.diff(yy) < -1e-12):
                    part.violation(PID, 'encircled-energy-monotone', 'EncircledEnergy.view', cond0, dict(det, field=i), observed=yy[:5], expected='non-decreasing')
                if not (np.all(np.isfinite(x)) and np.all(np.isfinite(y))):
                    # a field with failed rays has no centroid (plain mean of its points) in the library nor in the recomputation
                    part.count('encircled-energy:field-with-failed-rays-judged-for-monotonicity-only')
                    continue
                tot = float(np.nansum(e))
                if len(yy) and abs(yy[-1] - tot) > 1e-9 * max(1.0, tot):
                    part.violation(PID, 'encircled-energy-reaches-total', 'EncircledEnergy.view', cond0, dict(det, field=i), observed=float(yy[-1]), expected=tot)
                if len(yy):
                    cxm, cym = float(np.mean(x)), float(np.mean(y))
                    rad = np.hypot(x - cxm, y - cym)
                    refc = np.array([np.nansum(e[rad <= r]) for r in rr])
                    same(part, 'encircled-energy-curve', 'EncircledEnergy.view', cond0, dict(det, field=i), yy, refc)
        # ---------------- rms spot size versus field ------------------------------------------------------------------------
        nf = 4
        rv = guarded(part, 'rms-spot-vs-field', 'RmsSpotSizeVsField', cond0, det0,
                     lambda: AN.RmsSpotSizeVsField(o, num_fields=nf, wavelengths='all', num_rings=3, distribution='hexapolar'))
        part.transitions += 1
        part.evals += 1
        if rv is not None:
            exp = []
            for Hy in np.linspace(0, 1, nf):
                px, py, _ = spot(o, 0.0, float(Hy), 0.5876, 3, 'hexapolar')
                cxm, cym = float(np.mean(px)), float(np.mean(py))
                exp.append([math.sqrt(float(np.mean((spot(o, 0.0, float(Hy), w, 3, 'hexapolar')[0] - cxm) ** 2 +
                                                     (spot(o, 0.0, float(Hy), w, 3, 'hexapolar')[1] - cym) ** 2))) for w in lens_w])
            same(part, 'rms-spot-vs-field', 'RmsSpotSizeVsField', cond0, det0, rv._spot_size, np.array(exp))
        # ---------------- distortion: chief-ray image height versus paraxial image height -------------------------------------
        ybp, ubp = abcd.chief(rows, ft, mf)
        y_par_full = ybp[-1] * (1.0 if ft == 'angle' else -1.0)      # real rays of height fields start at +h (see C05)
        npd = 6
        for dtype in (('f-tan', 'f-theta') if ft == 'angle' else ('f-tan',)):
            cond = f'{cond0},type={dtype}'
            dd = guarded(part, 'distortion', 'Distortion', cond, det0, lambda: AN.Distortion(o, wavelengths=[0.5876], num_points=npd, distortion_type=dtype))
            part.transitions += 1
            part.evals += 1
            if dd is None:
                continue
            Hs = np.linspace(1e-10, 1, npd)
            yr = np.array([float(o.trace_generic(0.0, float(H), 0.0, 0.0, 0.5876).y[0]) for H in Hs])
            if ft == 'angle':
                th = math.radians(mf)
                yp = y_par_full * (np.tan(Hs * th) / math.tan(th) if dtype == 'f-tan' else Hs * th / math.tan(th))
            else:
                yp = y_par_full * Hs
            with np.errstate(all='ignore'):
                ref = 100 * (yr - yp) / yp
            got = np.asarray(dd.data[0], float)
            # the first sample (H = 1e-10) is 0/0-like noise in any implementation: judged from the second sample on
            same(part, 'distortion-vs-paraxial-image-height', 'Distortion', cond, det0, got[1:], ref[1:], tol=0.02)
        # ---------------- grid distortion ---------------------------------------------------------------------------------------------
        for ng in (4, 5):
            condg = f'{cond0},grid={"even" if ng % 2 == 0 else "odd"}'
            gd = guarded(part, 'grid-distortion', 'GridDistortion', condg, det0, lambda: AN.GridDistortion(o, wavelength=0.5876, num_points=ng))
            part.transitions += 1
            part.evals += 1
            if gd is None:
                continue
            ext = np.linspace(-math.sqrt(2) / 2, math.sqrt(2) / 2, ng)
            HX, HY = np.meshgrid(ext, ext)
            o.trace_generic(HX.flatten().copy(), HY.flatten().copy(), 0.0, 0.0, 0.5876)
            xr = np.asarray(o.surface_group.x[-1], float).reshape(ng, ng)
            yr = np.asarray(o.surface_group.y[-1], float).reshape(ng, ng)
            same(part, 'grid-distortion-real-points', 'GridDistortion', condg, det0, gd.data['xr'], xr)
            same(part, 'grid-distortion-real-points', 'GridDistortion', condg, det0, gd.data['yr'], yr)
            # predicted (paraxial) grid: y_p = paraxial image height of the field Hy (columns with Hx = 0 are not needed for that)
            if ft == 'angle':
                th = math.radians(mf)
                yp = y_par_full * np.tan(HY * th) / math.tan(th)
                same(part, 'grid-distortion-predicted-points', 'GridDistortion', condg, det0, gd.data['yp'], yp, tol=1e-5 * max(1.0, abs(y_par_full)))
            else:
                # object heights: the paraxial image of the object point (HX, HY) h is m h (HX, HY), for x exactly as for y
                same(part, 'grid-distortion-predicted-points', 'GridDistortion', condg, dict(det0, axis='y'), gd.data['yp'], y_par_full * HY,
                     tol=1e-5 * max(1.0, abs(y_par_full)))
                same(part, 'grid-distortion-predicted-points', 'GridDistortion', condg, dict(det0, axis='x'), gd.data['xp'], y_par_full * HX,
                     tol=1e-5 * max(1.0, abs(y_par_full)))
            xp, ypl = np.asarray(gd.data['xp'], float), np.asarray(gd.data['yp'], float)
            rp = np.hypot(xp, ypl)
            with np.errstate(all='ignore'):
                dl = 100 * np.hypot(xp - xr, ypl - yr) / rp
            exp_max = float(np.nanmax(np.where(rp > 0, dl, np.nan)))
            same(part, 'grid-distortion-maximum', 'GridDistortion', condg, det0, [gd.data['max_distortion']], [exp_max], tol=1e-7)
        # ---------------- grid distortion at a non-primary wavelength (angular fields): real grid and paraxial scale at THAT wavelength
        if ft == 'angle' and not has_mirror:
            wg, ng = 0.4861, 4
            condg = f'{cond0},wavelength=non-primary'
            gd = guarded(part, 'grid-distortion', 'GridDistortion', condg, det0, lambda: AN.GridDistortion(o, wavelength=wg, num_points=ng))
            part.transitions += 1
            part.evals += 1
            if gd is not None:
                ext = np.linspace(-math.sqrt(2) / 2, math.sqrt(2) / 2, ng)
                HX, HY = np.meshgrid(ext, ext)
                o.trace_generic(HX.flatten().copy(), HY.flatten().copy(), 0.0, 0.0, wg)
                same(part, 'grid-distortion-real-points', 'GridDistortion', condg, dict(det0, wavelength=wg), gd.data['xr'],
                     np.asarray(o.surface_group.x[-1], float).reshape(ng, ng))
                same(part, 'grid-distortion-real-points', 'GridDistortion', condg, dict(det0, wavelength=wg), gd.data['yr'],
                     np.asarray(o.surface_group.y[-1], float).reshape(ng, ng))
                # paraxial chief ray of the library's ray aiming (through the centre of the primary-wavelength entrance pupil),
                # traced through the indices of the analysed wavelength
                rows_g = prescription.rows(sp, lambda m, prev: LZ.ref_index(m, wg, prev))
                th = math.radians(mf)
                yg, _ = abcd.trace(rows_g, 0.0, math.tan(th), epl)
                yp = yg[-1] * np.tan(HY * th) / math.tan(th)
                if abs(yg[-1] - y_par_full) > 1e-4 * max(1.0, abs(y_par_full)):
                    part.count('grid-distortion:lateral-colour-visible')
                same(part, 'grid-distortion-predicted-points', 'GridDistortion', condg, dict(det0, wavelength=wg), gd.data['yp'], yp,
                     tol=1e-5 * max(1.0, abs(yg[-1])))
        # ---------------- field curvature: Coddington along the real chief ray ----------------------------------------------------
        for img_shape in ([None, -45.0, 60.0] if not has_mirror else []):
            npf = 5
            if img_shape is None:
                o_fc, sp_fc, condf = o, sp, cond0 + ',image=flat'
            else:
                sp_fc = dict(sp, img=S('sphere', R=img_shape))
                o_fc = LZ.build(sp_fc)
                part.states += 1
                condf = cond0 + ',image=curved'
            fc = guarded(part, 'field-curvature', 'FieldCurvature', condf, det0, lambda: AN.FieldCurvature(o_fc, wavelengths=[0.5876, 0.4861], num_points=npf))
            part.transitions += 1
            part.evals += 1
            if fc is not None:
                for wi, w in enumerate((0.5876, 0.4861)):
                    rows_w = prescription.rows(sp_fc, lambda m, prev: LZ.ref_index(m, w, prev))
                    tref, sref = [], []
                    for Hy in np.linspace(0, 1, npf):
                        r_ = coddington(rows_w, o_fc, float(Hy), w)
                        tref.append(r_[0] if r_ else float('nan'))
                        sref.append(r_[1] if r_ else float('nan'))
                    for nm, got, ref in (('tangential', fc.data[wi][0], tref), ('sagittal', fc.data[wi][1], sref)):
                        got, ref = np.asarray(got, float), np.asarray(ref, float)
                        part.count('cmp:field-curvature')
                        okk = np.isfinite(ref) & (np.abs(ref) < 1e3)
                        if got.shape != ref.shape or np.any(np.abs(got[okk] - ref[okk]) > 2e-4 + 3e-4 * np.abs(ref[okk])):
                            i = int(np.argmax(np.where(okk, np.abs(got - ref), 0))) if got.shape == ref.shape else 0
                            part.violation(PID, f'field-curvature-{nm}-is-coddington', 'FieldCurvature', condf, dict(det0, wave=w, sample=i, image_radius=img_shape),
                                           observed=float(got[i]) if got.shape == ref.shape else list(got.shape), expected=float(ref[i]), tol=2e-4)
        # ---------------- field curvature of a lens that is NOT mirror-symmetric about the meridional plane (first surface decentred
        #                  in x): the documented quantity is the crossing of the projected parabasal pair, recomputed from own traces
        if not has_mirror:
            sp_dx = copy.deepcopy(sp)
            sp_dx['surfs'][0]['dx'] = 0.04 * p['epd']
            o_dx = LZ.build(sp_dx)
            part.states += 1
            condx = cond0 + ',lens=decentred-in-x'
            npf = 5
            fcx = guarded(part, 'field-curvature', 'FieldCurvature', condx, det0, lambda: AN.FieldCurvature(o_dx, wavelengths=[0.5876], num_points=npf))
            part.transitions += 1
            part.evals += 1
            if fcx is not None:
                dl = 4e-5
                tref, sref = [], []
                for Hy in np.linspace(0, 1, npf):
                    rec = []
                    for (px, py) in ((-dl, 0.0), (dl, 0.0), (0.0, -dl), (0.0, dl)):
                        o_dx.trace_generic(0.0, float(Hy), px, py, 0.5876)
                        sg = o_dx.surface_group
                        rec.append([float(np.ravel(getattr(sg, q)[-1])[0]) for q in ('x', 'y', 'z', 'L', 'M', 'N')])
                    part.transitions += 4
                    (xa, _, za, La, _, Na), (xb, _, zb, Lb, _, Nb) = rec[0], rec[1]
                    # x-z projections  x = xa + La t, z = za + Na t  and  x = xb + Lb u, z = zb + Nb u  cross at parameter t
                    den = La * Nb - Lb * Na
                    sref.append(((xb - xa) * Nb - (zb - za) * Lb) / den * Na if den != 0 else float('nan'))
                    (_, ya, za, _, Ma, Na), (_, yb, zb, _, Mb, Nb) = rec[2], rec[3]
                    den = Ma * Nb - Mb * Na
                    tref.append(((yb - ya) * Nb - (zb - za) * Mb) / den * Na if den != 0 else float('nan'))
                for nm, got, ref in (('tangential', fcx.data[0][0], tref), ('sagittal', fcx.data[0][1], sref)):
                    got, ref = np.asarray(got, float), np.asarray(ref, float)
                    part.count('cmp:field-curvature-decentred')
                    okk = np.isfinite(ref) & (np.abs(ref) < 1e3)
                    if got.shape != ref.shape or np.any(np.abs(got[okk] - ref[okk]) > 2e-4 + 3e-4 * np.abs(ref[okk])):
                        i = int(np.argmax(np.where(okk, np.abs(got - ref), 0))) if got.shape == ref.shape else 0
                        part.violation(PID, f'field-curvature-{nm}-is-parabasal-focus-of-own-rays', 'FieldCurvature', condx, dict(det0, sample=i),
                                       observed=float(got[i]) if got.shape == ref.shape else list(got.shape), expected=float(ref[i]), tol=2e-4)
        # ---------------- pupil aberration ---------------------------------------------------------------------------------------
        npp = 5
        pa = guarded(part, 'pupil-aberration', 'PupilAberration', cond0 + f',stop={"first" if unit["stop"] == 0 else "later"}', det0,
                     lambda: AN.PupilAberration(o, fields='all', wavelengths=[0.5876], num_points=npp))
        part.transitions += 1
        part.evals += 1
        if pa is not None:
            sidx = unit['stop'] + 1
            ysm, usm, _ = abcd.marginal(rows, ('EPD', p['epd']))
            dstop = ysm[sidx - 1]
            # semi-diameter of the stop = marginal ray height there (infinite object) or its paraxial equivalent for Py = 1
            if not math.isinf(obj):
                # paraxial ray from the axial object point through pupil coordinate Py = 1
                dstop = ysm[sidx - 1]
            Pys = np.linspace(-1, 1, npp)
            condp = cond0 + f',stop={"first" if unit["stop"] == 0 else "later"}'
            for (fx, fy) in lens_f:
                o.trace(fx, fy, 0.5876, npp, 'line_x')
                rx = np.asarray(o.surface_group.x[sidx], float).copy()
                o.trace(fx, fy, 0.5876, npp, 'line_y')
                ry = np.asarray(o.surface_group.y[sidx], float).copy()
                ex = (Pys * dstop - rx) / dstop * 100
                ey = (Pys * dstop - ry) / dstop * 100
                got = pa.data[f'{(fx, fy)}'][f'{0.5876}']
                same(part, 'pupil-aberration', 'PupilAberration', condp, dict(det0, field=[fx, fy], axis='x'), got['x'], ex, tol=1e-7)
                same(part, 'pupil-aberration', 'PupilAberration', condp, dict(det0, field=[fx, fy], axis='y'), got['y'], ey, tol=1e-7)
        # ---------------- pupil aberration of the same finite-object lens described with angular fields -----------------------------
        if not math.isinf(obj) and pa is not None and not has_mirror:
            sp_fa = dict(sp, ftype='angle', fields=[[0.0, 0.0, 0.0], [0.7 * p['ang'], 0.0, 0.0], [p['ang'], 0.0, 0.0]])
            o_fa = LZ.build(sp_fa)
            part.states += 1
            condfa = 'object=finite,field=angle'
            pa3 = guarded(part, 'pupil-aberration', 'PupilAberration', condfa, det0,
                          lambda: AN.PupilAberration(o_fa, fields='all', wavelengths=[0.5876], num_points=npp))
            part.transitions += 1
            part.evals += 1
            if pa3 is not None:
                for (fx, fy) in [tuple(float(q) for q in fc_) for fc_ in o_fa.fields.get_field_coords()]:
                    o_fa.trace(fx, fy, 0.5876, npp, 'line_x')
                    rx = np.asarray(o_fa.surface_group.x[sidx], float).copy()
                    o_fa.trace(fx, fy, 0.5876, npp, 'line_y')
                    ry = np.asarray(o_fa.surface_group.y[sidx], float).copy()
                    got = pa3.data[f'{(fx, fy)}'][f'{0.5876}']
                    same(part, 'pupil-aberration', 'PupilAberration', condfa, dict(det0, field=[fx, fy], axis='x'), got['x'], (Pys * dstop - rx) / dstop * 100, tol=1e-7)
                    same(part, 'pupil-aberration', 'PupilAberration', condfa, dict(det0, field=[fx, fy], axis='y'), got['y'], (Pys * dstop - ry) / dstop * 100, tol=1e-7)
        # ---------------- pupil aberration with a clipping aperture in front of the stop: each fan masked by ITS OWN vignetting
        if unit['stop'] >= 1 and not has_mirror:
            ka = 1                                   # surface carrying the aperture (in front of the stop)
            ra = 1.02 * abs(ysm[ka - 1]) + 0.25 * abs(ybp[ka - 1]) if pa is not None else None
            if ra is not None and abs(ybp[ka - 1]) > 0.05 * abs(ysm[ka - 1]) and ra > 1e-3:
                import copy as _copy
                sp_a = _copy.deepcopy(sp)
                sp_a['surfs'][ka - 1]['aperture'] = [float(ra)]
                o_a = LZ.build(sp_a)
                part.states += 1
                condp = cond0 + ',clipping-aperture-before-stop'
                pa2 = guarded(part, 'pupil-aberration', 'PupilAberration', condp, det0,
                              lambda: AN.PupilAberration(o_a, fields='all', wavelengths=[0.5876], num_points=9))
                part.transitions += 1
                part.evals += 1
                if pa2 is not None:
                    Pys9 = np.linspace(-1, 1, 9)
                    differ = False
                    for (fx, fy) in lens_f:
                        o_a.trace(fx, fy, 0.5876, 9, 'line_x')
                        rx = np.asarray(o_a.surface_group.x[sidx], float).copy()
                        ix = np.asarray(o_a.surface_group.intensity[sidx], float).copy()
                        o_a.trace(fx, fy, 0.5876, 9, 'line_y')
                        ry = np.asarray(o_a.surface_group.y[sidx], float).copy()
                        iy = np.asarray(o_a.surface_group.intensity[sidx], float).copy()
                        ex = np.where(ix == 0, np.nan, (Pys9 * dstop - rx) / dstop * 100)
                        ey = np.where(iy == 0, np.nan, (Pys9 * dstop - ry) / dstop * 100)
                        differ = differ or not np.array_equal(ix == 0, iy == 0)
                        got = pa2.data[f'{(fx, fy)}'][f'{0.5876}']
                        same(part, 'pupil-aberration-vignetted-samples', 'PupilAberration', condp, dict(det0, field=[fx, fy], axis='x', aperture=float(ra)),
                             got['x'], ex, tol=1e-7)
                        same(part, 'pupil-aberration-vignetted-samples', 'PupilAberration', condp, dict(det0, field=[fx, fy], axis='y', aperture=float(ra)),
                             got['y'], ey, tol=1e-7)
                    if differ:
                        part.count('pupil-aberration:x-and-y-fans-clipped-differently')
        # ---------------- real-ray and spot-size operands -------------------------------------------------------------------------------
        for k in range(1, len(rows)):
            r = o.trace_generic(0.0, 0.7, 0.3, -0.6, 0.4861)
            sg = o.surface_group
            exp = dict(x_intercept=float(sg.x[k, 0]), y_intercept=float(sg.y[k, 0]), z_intercept=float(sg.z[k, 0]), L=float(sg.L[k, 0]),
                       M=float(sg.M[k, 0]), N=float(sg.N[k, 0]))
            for nm, ev in exp.items():
                got = getattr(RayOperand, nm)(o, k, 0.0, 0.7, 0.3, -0.6, 0.4861)
                part.transitions += 1
                same(part, 'ray-operand', f'RayOperand.{nm}', cond0, dict(det0, surface=k), [got], [ev])
        part.evals += 1
        x, y, _ = spot(o, 0.0, 1.0, 0.6563, 3, 'hexapolar')
        same(part, 'rms-spot-size-operand', 'RayOperand.rms_spot_size', cond0, det0,
             [RayOperand.rms_spot_size(o, len(rows) - 1, 0.0, 1.0, 3, 0.6563)], [math.sqrt(float(np.mean((x - x.mean()) ** 2 + (y - y.mean()) ** 2)))])
        xs, ysl = [], []
        for w in lens_w:
            a, b, _ = spot(o, 0.0, 1.0, w, 3, 'hexapolar')
            xs.append(a)
            ysl.append(b)
        mx, my = xs[1].mean(), ysl[1].mean()
        r2 = np.concatenate([(xs[i] - mx) ** 2 + (ysl[i] - my) ** 2 for i in range(3)])
        same(part, 'rms-spot-size-operand', 'RayOperand.rms_spot_size', cond0, dict(det0, wavelength='all'),
             [RayOperand.rms_spot_size(o, len(rows) - 1, 0.0, 1.0, 3, 'all')], [math.sqrt(float(np.mean(r2)))])
        # the same operand on its other documented pupil samplings, single wavelength and 'all'
        for dname, nr_ in (('uniform', 6), ('cross', 5), ('ring', 8), ('line_y', 7)):
            x, y, _ = spot(o, 0.0, 0.7, 0.4861, nr_, dname)
            same(part, 'rms-spot-size-operand', 'RayOperand.rms_spot_size', cond0, dict(det0, distribution=dname),
                 [RayOperand.rms_spot_size(o, len(rows) - 1, 0.0, 0.7, nr_, 0.4861, dname)],
                 [math.sqrt(float(np.mean((x - x.mean()) ** 2 + (y - y.mean()) ** 2)))])
            xs, ysl = [], []
            for w in lens_w:
                a, b, _ = spot(o, 0.0, 0.7, w, nr_, dname)
                xs.append(a)
                ysl.append(b)
            mx, my = xs[1].mean(), ysl[1].mean()
            r2 = np.concatenate([(xs[i] - mx) ** 2 + (ysl[i] - my) ** 2 for i in range(3)])
            same(part, 'rms-spot-size-operand', 'RayOperand.rms_spot_size', cond0, dict(det0, wavelength='all', distribution=dname),
                 [RayOperand.rms_spot_size(o, len(rows) - 1, 0.0, 0.7, nr_, 'all', dname)], [math.sqrt(float(np.mean(r2)))])
            part.transitions += 2
        # ---------------- distortion on a lens whose largest field is a negative one (angular fields) ---------------------------------
        if ft == 'angle' and not has_mirror:
            sp_n = dict(sp, fields=[[-mf, 0.0, 0.0], [0.0, 0.0, 0.0], [0.4 * mf, 0.0, 0.0]])
            o_n = LZ.build(sp_n)
            part.states += 1
            npd = 6
            for dtype in ('f-tan', 'f-theta'):
                cond = f'{cond0},type={dtype},largest-field=negative'
                dd = guarded(part, 'distortion', 'Distortion', cond, det0, lambda: AN.Distortion(o_n, wavelengths=[0.5876], num_points=npd, distortion_type=dtype))
                part.transitions += 1
                part.evals += 1
                if dd is None:
                    continue
                Hs = np.linspace(1e-10, 1, npd)
                yr = np.array([float(o_n.trace_generic(0.0, float(H), 0.0, 0.0, 0.5876).y[0]) for H in Hs])
                th = math.radians(mf)      # the ray generator maps Hy to Hy x (largest field in absolute value)
                yp = y_par_full * (np.tan(Hs * th) / math.tan(th) if dtype == 'f-tan' else Hs * th / math.tan(th))
                with np.errstate(all='ignore'):
                    ref = 100 * (yr - yp) / yp
                got = np.asarray(dd.data[0], float)
                same(part, 'distortion-vs-paraxial-image-height', 'Distortion', cond, det0, got[1:], ref[1:], tol=0.02)
    part.sample(dict(word=unit['word'], stop=unit['stop']))
    return part


def nontrivial_guard(total, tier):
    if total.counters.get('nontrivial', 0) < 0.5 * max(1, total.evals):
        return 'few non-trivial comparisons'
    return None
