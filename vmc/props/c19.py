"""C19 - saving and reloading a lens preserves its behaviour.

History LTS: initial states = one lens per feature and every pair of features from a feature menu (surface shapes, mirror,
media kinds, coatings, scatter models, apertures, vignetted fields, polarization settings, telecentric object space,
pickup, solve); transitions = edits (set_thickness / set_radius / set_conic / set_index / scale_system / image_solve /
update / an optimiser run). In every state: to_dict, json text, from_dict, file save/load. Oracle: serialisable; canonical
state preserved; rays and paraxial data identical; dictionary of the reloaded lens equals the one it was loaded from.
"""
import copy
import itertools
import json
import math
import os
import tempfile

import numpy as np

from vmc import canon
from vmc import lens as LZ
from vmc.core import Part, exc_text
from vmc.lens import S, V

PID = 'C19'
W = 0.5876
META = dict(
    rule='unit = (feature set, edit history); evaluation = one state put through dict / JSON / file round trips; non-trivial = '
         'rays reach the image finite in the original lens; distinct = (features, history)',
    exhaustive=True,
    bounds=dict(quick='22 single features + all 231 pairs, edit histories of length <= 1 on every state and length 2 on the 22 '
                      'single-feature lenses (9 edits)',
                thorough='edit histories of length 2 on every pair, 2 numeric variants'),
    tolerances=dict(rays='bit-identical for the dict round trip and for JSON (repr round-trips doubles)', state='canonical, 12 digits'),
    assumptions=['scatter models are compared at dictionary / canonical level only (their kernels use an RNG the harness does not own)'],
)

THOROUGH_VARIANTS = 2

FEATURES = ['sphere', 'conic', 'asphere', 'polynomial', 'chebyshev', 'mirror', 'catalogue-glass', 'abbe-glass', 'absorbing-ideal',
            'simple-coating', 'fresnel-coating', 'lambertian', 'gaussian-bsdf', 'aperture', 'obscuration', 'vignetting', 'pol-state',
            'unpolarized', 'telecentric', 'pickup', 'solve', 'decenter-tilt', 'ranged-glass', 'coated-mirror', 'pickup-object-gap', 'flat-with-conic', 'custom-fresnel']
EDITS = ['set_thickness', 'set_thickness0', 'set_radius', 'set_conic', 'set_index', 'scale_system', 'image_solve', 'update', 'optimise']


STRUCT_EDITS = ['remove_surface', 'insert_surface']


def units(tier, variant):
    out = []
    singles = [(f,) for f in FEATURES]
    pairs = list(itertools.combinations(FEATURES, 2))
    for fs in singles + pairs:
        out.append(dict(features=list(fs), history=[], variant=variant))
        for e in EDITS:
            out.append(dict(features=list(fs), history=[e], variant=variant))
    # structural edits (a surface removed / inserted in the middle): the media on the two sides of a surface need no longer be
    # those of its neighbours; whatever lens results, the saved form must bring back the same lens
    for fs in singles:
        for e in STRUCT_EDITS:
            out.append(dict(features=list(fs), history=[e], variant=variant))
            out.append(dict(features=list(fs), history=[e, 'set_thickness'], variant=variant))
    deep = singles if tier == 'quick' else singles + pairs
    for fs in deep:
        for e1 in EDITS:
            for e2 in EDITS:
                out.append(dict(features=list(fs), history=[e1, e2], variant=variant))
    return out


def make_lens(features, v):
    """A 3-surface lens carrying the requested features."""
    from optiland.scatter import LambertianBSDF, GaussianBSDF
    p = V(v)
    R = p['R']
    f = set(features)
    g = ['ideal', p['n1'], 0.0]
    s1 = S('sphere', R=R, mat=g, t=5.0, stop=True)
    s2 = S('sphere', R=-R, mat='air', t=12.0)
    s3 = S('plane', mat='air', t=30.0)
    if 'conic' in f:
        s2 = S('conic', R=-R, k=-0.7, mat='air', t=12.0)
    if 'asphere' in f:
        s1 = dict(s1, shape='asph', k=-0.1, coeffs=[1e-5, -2e-8])
    if 'polynomial' in f:
        s3 = S('poly', R=4 * R, k=0.0, coeffs=[[0.0, 1e-3], [2e-3, 1e-4]], mat='air', t=30.0)
    if 'chebyshev' in f:
        s3 = S('cheb', R=5 * R, k=0.0, coeffs=[[0.0, 0.01, 0.002], [0.02, 0.0, 0.0]], norm=[120.0, 90.0], mat='air', t=30.0)
    if 'mirror' in f or 'coated-mirror' in f:
        s3 = dict(s3, mat='mirror', t=-25.0)
        if s3['shape'] == 'plane':
            s3 = S('sphere', R=-6 * R, mat='mirror', t=-25.0)
    if 'catalogue-glass' in f:
        s1 = dict(s1, mat='N-BK7')
    if 'abbe-glass' in f:
        s1 = dict(s1, mat=['abbe', 1.62, 36.0])
    if 'absorbing-ideal' in f:
        s1 = dict(s1, mat=['ideal', p['n2'], 2e-6])
    if 'ranged-glass' in f:
        # SF6 is both a SCHOTT glass and a gas in the catalogue: the wavelength range given decides which data set is meant
        s1 = dict(s1, mat=['catr', 'SF6', 0.6, 1.5])
    if 'coated-mirror' in f:
        s3 = dict(s3, coating=['simple', 0.04, 0.88])
    if 'simple-coating' in f:
        s2 = dict(s2, coating=['simple', 0.9, 0.1])
    if 'fresnel-coating' in f:
        s1 = dict(s1, coating='fresnel')
    if 'custom-fresnel' in f:
        s2 = dict(s2, coating=['fresnel-media', 1.0, 2.0])
    if 'aperture' in f:
        s2 = dict(s2, aperture=[0.45 * p['epd']])
    if 'obscuration' in f:
        s1 = dict(s1, aperture=[0.6 * p['epd'], 0.1 * p['epd']])
    if 'decenter-tilt' in f:
        s2 = dict(s2, dy=0.3, rx=0.02, dx=-0.1, ry=-0.01)
    tele = 'telecentric' in f
    finite = tele or 'pickup-object-gap' in f
    pol = None
    if 'pol-state' in f or (('fresnel-coating' in f or 'custom-fresnel' in f) and 'unpolarized' not in f):
        pol = [1.0, 0.5, 0.0, 0.3]
    if 'unpolarized' in f:
        pol = 'unpolarized'
    if finite:
        spec = LZ.spec([s1, s2, s3], obj=p['od'][0], ap=('objectNA', p['na']), ftype='object_height', fields=(0.0, 0.6 * p['h'], p['h']),
                       waves=((0.4861, False), (W, True), (0.6563, False)), tele=tele, pol=pol)
    else:
        flds = ([0.0, 0.0, 0.0], [0.6 * p['ang'], 0.1, 0.05], [p['ang'], 0.2, 0.15]) if 'vignetting' in f else (0.0, 0.6 * p['ang'], p['ang'])
        spec = LZ.spec([s1, s2, s3], obj=LZ.INF, ap=('EPD', p['epd']), ftype='angle', fields=flds,
                       waves=((0.4861, False), (W, True), (0.6563, False)), pol=pol)
    o = LZ.build(spec)
    if 'lambertian' in f:
        o.surface_group.surfaces[2].bsdf = LambertianBSDF()
    if 'gaussian-bsdf' in f:
        o.surface_group.surfaces[1].bsdf = GaussianBSDF(sigma=0.02)
    if 'pickup' in f:
        o.pickups.add(1, 'radius', 2, scale=-1.0, offset=0.5)
    if 'solve' in f:
        o.solves.add('marginal_ray_height', 4, 0.0)
    if 'pickup-object-gap' in f and not math.isinf(float(np.ravel(o.surface_group.positions[0])[0])):
        # the object distance picks up a gap of the lens (symmetric relay)
        o.pickups.add(2, 'thickness', 0, scale=2.0, offset=40.0)
        o.update()
    if 'flat-with-conic' in f and type(o.surface_group.surfaces[3].geometry).__name__ == 'Plane':
        o.set_conic(-1.0, 3)
    return o


def apply_edit(o, e, v):
    p = V(v)
    if e == 'set_thickness':
        o.set_thickness(6.5, 1)
    elif e == 'set_thickness0':
        if not math.isinf(float(np.ravel(o.surface_group.positions[0])[0])):
            o.set_thickness(p['od'][0] * 1.1, 0)
        else:
            o.set_thickness(13.0, 2)
    elif e == 'set_radius':
        o.set_radius(1.3 * p['R'], 1)
    elif e == 'set_conic':
        o.set_conic(-0.4, 2)
    elif e == 'set_index':
        o.set_index(1.61, 1)
    elif e == 'scale_system':
        o.scale_system(1.5)
    elif e == 'image_solve':
        o.image_solve()
    elif e == 'update':
        o.update()
    elif e == 'remove_surface':
        o.surface_group.remove_surface(2)
    elif e == 'insert_surface':
        from optiland.materials import IdealMaterial
        o.add_surface(index=2, radius=-2.5 * p['R'], thickness=1.5, material=IdealMaterial(n=1.7, k=0.0))
    elif e == 'optimise':
        from optiland.optimization import OptimizationProblem, OptimizerGeneric
        prob = OptimizationProblem()
        prob.add_variable(o, 'radius', surface_number=1)
        prob.add_variable(o, 'thickness', surface_number=2)
        prob.add_operand('f2', 55.0, 1.0, dict(optic=o))
        OptimizerGeneric(prob).optimize(maxiter=3, disp=False, tol=1e-3)
    else:
        raise ValueError(e)


def fan(o, has_scatter):
    """Ray data of a fixed fan (all fields x 3 wavelengths) + paraxial data; None for scatter lenses."""
    if has_scatter:
        return None
    Px, Py = LZ.fan25()
    out = []
    for (hx, hy) in o.fields.get_field_coords():
        for w in (0.4861, W, 0.6563):
            if o.polarization == 'ignore':
                r = o.trace_generic(np.zeros_like(Px), np.full_like(Px, hy), Px.copy(), Py.copy(), w)
            else:
                class D_:
                    x, y = Px.copy(), Py.copy()
                r = o.trace(0.0, hy, w, None, D_())
            out.append([np.asarray(getattr(r, k), float).copy() for k in ('x', 'y', 'z', 'L', 'M', 'N', 'opd', 'i')])
    P = o.paraxial
    par = [P.f1(), P.f2(), P.F1(), P.F2(), P.EPL(), P.EPD(), P.XPL(), P.XPD(), P.FNO(), P.invariant()]
    par += [np.asarray(a, float).ravel() for a in P.marginal_ray()] + [np.asarray(a, float).ravel() for a in P.chief_ray()]
    return out, [np.asarray(q, float) for q in par]


def normalise(d):
    """Plain-JSON rendering of a dictionary form (tuples -> lists, numpy scalars -> float) for equality."""
    if isinstance(d, dict):
        return {str(k): normalise(v) for k, v in d.items()}
    if isinstance(d, (list, tuple)):
        return [normalise(v) for v in d]
    if isinstance(d, np.ndarray):
        return normalise(d.tolist())
    if isinstance(d, (np.floating, np.integer)):
        return float(d)
    if isinstance(d, float) and math.isnan(d):
        return 'nan'
    if isinstance(d, (str, int, float, bool)) or d is None:
        return d
    return ('object', type(d).__name__)


def same_arrays(a, b):
    if isinstance(a, list):
        return len(a) == len(b) and all(same_arrays(x, y) for x, y in zip(a, b))
    return a.shape == b.shape and bool(np.array_equal(a, b, equal_nan=True))


def run_unit(unit):
    from optiland.optic import Optic
    from optiland.fileio.optiland_handler import save_optiland_file, load_optiland_file
    part = Part(unit)
    v = unit['variant']
    o = make_lens(unit['features'], v)
    part.states += 1
    for e in unit['history']:
        apply_edit(o, e, v)
        part.transitions += 1
    feats = set(unit['features'])
    has_scatter = bool(feats & {'lambertian', 'gaussian-bsdf'})
    cond_f = ','.join(sorted(feats & {'pol-state', 'unpolarized', 'fresnel-coating'})) or 'plain'
    cond_h = '+'.join(unit['history']) or 'no-edits'
    det = dict(features=unit['features'], history=unit['history'], variant=v)
    part.evals += 1
    # (a) the dictionary form exists and is JSON-serialisable after any history
    d = o.to_dict()
    part.transitions += 1
    text = None
    try:
        text = json.dumps(d)
    except Exception as exc:  # noqa
        part.violation(PID, 'serialisable-after-any-history', 'json.dumps(Optic.to_dict())', f'features={cond_f},history-kind={"edited" if unit["history"] else "fresh"}',
                       det, observed=exc_text(exc), expected='JSON text')
    ref = fan(o, has_scatter)
    c0 = canon.optic(o)
    # (b)-(d) for the in-memory dictionary and for the JSON text / file
    routes = [('dict', lambda: Optic.from_dict(copy.deepcopy(d)))]
    if text is not None:
        routes.append(('json-text', lambda: Optic.from_dict(json.loads(text))))

        def via_file():
            fd, path = tempfile.mkstemp(suffix='.json', prefix='vmc_c19_')
            os.close(fd)
            try:
                # the path has a past: another design was saved to it and loaded from it before (save, load, save again under
                # the same name, load)
                other = make_lens(['conic'] if 'conic' not in feats else ['sphere'], v)
                save_optiland_file(other, path)
                load_optiland_file(path)
                save_optiland_file(o, path)
                return load_optiland_file(path)
            finally:
                os.remove(path)
        routes.append(('file', via_file))
    if unit['history'] == [] :
        def via_checkpoint():
            # the dictionary is a checkpoint: edits made to the lens afterwards must not reach into it
            keep = copy.deepcopy(d)
            o_live = Optic.from_dict(copy.deepcopy(d))
            d_live = o_live.to_dict()
            for e_ in ('set_radius', 'set_conic', 'set_thickness'):
                apply_edit(o_live, e_, v)
            for k_, s_ in enumerate(o_live.surface_group.surfaces):
                if hasattr(s_.geometry, 'c') and type(s_.geometry).__name__ == 'EvenAsphere':
                    o_live.set_asphere_coeff(7e-6, k_, 0)
            if normalise(d_live) != normalise(keep):
                raise AssertionError('to_dict() result changed when the lens was edited afterwards: ' + str(canon.diff(normalise(keep), normalise(d_live)))[:300])
            return Optic.from_dict(d_live)
        routes.append(('checkpoint-dict-then-edits', via_checkpoint))
    for rname, make in routes:
        cond = f'route={rname},features={cond_f}'
        try:
            o2 = make()
            part.transitions += 1
        except Exception as exc:  # noqa
            part.violation(PID, 'reload-succeeds', f'Optic.from_dict[{rname}]', cond, det, observed=exc_text(exc), expected='a lens')
            continue
        c2 = canon.optic(o2)
        part.count('cmp:canon')
        if c2 != c0 and 'pickup' in feats:
            # pickups are re-applied on load: was the saved lens in a state where its pickup had not been applied yet?
            r1 = float(o.surface_group.surfaces[1].geometry.radius)
            r2 = float(o.surface_group.surfaces[2].geometry.radius)
            if abs(r2 - (-r1 + 0.5)) > 1e-9 * max(1.0, abs(r1)):
                cond = 'pickup-not-yet-applied-when-saved'
        if c2 != c0 and 'pickup-object-gap' in feats:
            z = np.asarray(o.surface_group.positions, float).ravel()
            if abs((z[1] - z[0]) - (2.0 * (z[3] - z[2]) + 40.0)) > 1e-9 * max(1.0, abs(z[0])):
                cond = 'pickup-not-yet-applied-when-saved'
        if c2 != c0:
            part.violation(PID, 'same-prescription-after-reload', f'Optic.from_dict[{rname}]', cond, det, observed=canon.diff(c0, c2),
                           expected='identical prescription, fields, wavelengths, aperture, polarization, pickups, solves')
            continue
        try:
            d2 = o2.to_dict()
        except Exception as exc:  # noqa
            part.violation(PID, 'reloaded-dictionary-equals-source', f'Optic.to_dict[{rname}]', cond, det, observed=exc_text(exc), expected='dictionary')
            continue
        part.count('cmp:dict')
        if normalise(d2) != normalise(d):
            part.violation(PID, 'reloaded-dictionary-equals-source', f'Optic.to_dict[{rname}]', cond, det,
                           observed=canon.diff(normalise(d), normalise(d2)), expected='equal dictionaries')
        if ref is not None:
            got = fan(o2, has_scatter)
            part.count('cmp:rays')
            if not same_arrays(ref[0], got[0]):
                part.violation(PID, 'rays-identical-after-reload', f'Optic.from_dict[{rname}]', cond, det, observed='ray data differ', expected='bit-identical')
            if not same_arrays(ref[1], got[1]):
                part.violation(PID, 'paraxial-identical-after-reload', f'Optic.from_dict[{rname}]', cond, det, observed='paraxial data differ',
                               expected='identical')
    if ref is not None and np.any(np.isfinite(ref[0][0][1])):
        part.count('nontrivial')
    part.outcome(tuple(unit['features']), tuple(unit['history']))
    part.sample(det, limit=1)
    return part
