"""C10 - Zernike families are correctly indexed, normalised, and recovered by fitting  (finite-domain enumeration).

Every index of every family (3 x 120), every basis vector e_k for every N in the tier's menu, every family, on
two/three sample sets; each evaluation calls the real library and is compared with vmc.ref.zern.
"""
import math

import numpy as np

from vmc import lens as LZ
from vmc.core import Part
from vmc.ref import zern

PID = 'C10'
META = dict(
    rule='unit = one family (index/normalisation/Gram/linearity clauses) or one (family, N, sample set) block of '
         'basis-vector fits or one lens decomposition; evaluation = one library call compared with the reference; '
         'non-trivial = non-zero data; distinct = (family, N, k, sample set)',
    exhaustive=True,
    bounds=dict(quick='all 3x120 indices; Gram 120x120 for Standard and Noll; fits: N in {1,3,6,11,22,36,37} x every basis '
                      'vector x 3 families x 3 sample sets (sets that do not determine the N terms are skipped and counted); 4 lens decompositions',
                thorough='fits for every N in 1..37 x every basis vector x 3 families x 5 sample sets; 12 lens decompositions'),
    tolerances=dict(index='exact', gram='1e-10', recovery='1e-8', linear='1e-9'),
    assumptions=['sign of the sine terms is a convention the property does not state: terms are compared up to one '
                 'global sign per term', 'scipy.special.eval_jacobi'],
)

FAMS = ['standard', 'noll', 'fringe']
NQ = [1, 3, 6, 11, 22, 36, 37]


def fam_class(name):
    from optiland import zernike as Z
    return dict(standard=Z.ZernikeStandard, noll=Z.ZernikeNoll, fringe=Z.ZernikeFringe)[name]


def ref_index(fam, k):
    return dict(standard=lambda: zern.osa(k), noll=lambda: zern.noll(k + 1), fringe=lambda: zern.fringe(k + 1))[fam]()


def sample_set(name):
    from optiland import distribution as DD
    if name.startswith('hex'):
        d = DD.create_distribution('hexapolar')
        d.generate_points(int(name[3:]))
    else:
        d = DD.create_distribution('uniform')
        d.generate_points(int(name[3:]))
    return np.asarray(d.x, dtype=float).copy(), np.asarray(d.y, dtype=float).copy()


def units(tier, variant):
    out = [dict(kind='family', fam=f) for f in FAMS]
    Ns = NQ if tier == 'quick' else list(range(1, 38))
    sets = ['hex4', 'hex8', 'uni12'] if tier == 'quick' else ['hex4', 'hex6', 'hex8', 'uni12', 'uni17']
    for f in FAMS:
        for N in Ns:
            for s in sets:
                out.append(dict(kind='fit', fam=f, N=N, set=s))
        for s in sets:
            out.append(dict(kind='fitlinear', fam=f, set=s))
    lenses = [('objectives.CookeTriplet', 0.0), ('objectives.CookeTriplet', 1.0), ('simple.SingletStopSurf2', 0.7),
              ('telescopes.HubbleTelescope', 1.0)]
    if tier == 'thorough':
        lenses += [('objectives.DoubleGauss', 0.0), ('objectives.DoubleGauss', 1.0), ('objectives.ReverseTelephoto', 0.7),
                   ('objectives.Telephoto', 1.0), ('simple.CementedAchromat', 0.5), ('objectives.TessarLens', 1.0),
                   ('objectives.PetzvalLens', 0.7), ('eyepieces.EyepieceErfle', 0.5)]
    lenses += [('vmc.failing-rim-rays', 0.0), ('vmc.failing-rim-rays', 1.0)]
    for name, hy in lenses:
        for f in FAMS:
            out.append(dict(kind='lens', lens=name, Hy=hy, fam=f, N=37 if f == 'fringe' else 21))
    return out


def term_signs(fam, n_terms=120):
    """Library terms vs reference terms on the quadrature nodes: returns (lib matrix, ref matrix, sign per term)."""
    cls = fam_class(fam)
    r, phi, w = zern.disk_quadrature()
    Z = cls(coeffs=[1.0] * n_terms)
    lib = np.array([np.asarray(v, dtype=float) for v in Z.terms(r, phi)])
    ref = np.array([zern.zern(*ref_index(fam, k), r, phi, normalised=(fam != 'fringe')) for k in range(n_terms)])
    return lib, ref, r, phi, w


def run_family(part, unit):
    fam = unit['fam']
    cls = fam_class(fam)
    Z = cls()
    idx = [tuple(int(v) for v in t) for t in Z.indices]
    part.states += 1
    # (0) objects built with the default coefficients are independent of each other (history: edit one, build another)
    a_ = cls()
    a_.coeffs[4] = 1.0
    b_ = cls()
    part.transitions += 2
    part.evals += 1
    vb = float(np.ravel(b_.poly(np.array([0.7]), np.array([0.3])))[0])
    if vb != 0.0 or any(float(c_) != 0.0 for c_ in b_.coeffs):
        part.violation(PID, 'default-object-has-zero-coefficients', f'Zernike{fam.capitalize()}.__init__', f'family={fam},history=another-default-object-was-edited',
                       dict(history=['Z()', 'coeffs[4] = 1', 'Z()']), observed=vb, expected=0.0)
    a_.coeffs[4] = 0.0
    # (1) indices, order, no repetition
    exp = [ref_index(fam, k) for k in range(120)]
    part.evals += 120
    part.transitions += 120
    if len(idx) < 120 or idx[:120] != exp:
        bad = next((k for k in range(min(len(idx), 120)) if idx[k] != exp[k]), min(len(idx), 120))
        part.violation(PID, 'index-rule', f'Zernike{fam.capitalize()}.indices', f'family={fam}', dict(first_bad=bad),
                       observed=idx[bad:bad + 3], expected=exp[bad:bad + 3])
    if len(set(idx)) != len(idx):
        part.violation(PID, 'index-no-repeat', f'Zernike{fam.capitalize()}.indices', f'family={fam}', {},
                       observed=len(set(idx)), expected=len(idx))
    # (2) unit radial value at the pupil edge
    for k, (n, m) in enumerate(exp):
        v = float(Z._radial_term(n, m, 1.0))
        part.evals += 1
        if abs(v - 1.0) > 1e-9:
            part.violation(PID, 'radial-unit-at-edge', 'ZernikeStandard._radial_term', f'family={fam}',
                           dict(n=n, m=m), observed=v, expected=1.0, tol=1e-9)
    # (3) pointwise agreement with the published definition (up to one sign per term) and orthonormality
    lib, ref, r, phi, w = term_signs(fam)
    part.transitions += 1
    for k in range(120):
        e1 = np.max(np.abs(lib[k] - ref[k]))
        e2 = np.max(np.abs(lib[k] + ref[k]))
        part.evals += 1
        if min(e1, e2) > 1e-9 * max(1.0, np.max(np.abs(ref[k]))):
            part.violation(PID, 'term-definition', f'Zernike{fam.capitalize()}.get_term', f'family={fam}',
                           dict(k=k, nm=exp[k]), observed=lib[k][:3], expected=ref[k][:3], tol=1e-9)
        part.outcome(fam, k, lib[k][5])
    if fam in ('standard', 'noll'):
        G = (lib * w) @ lib.T
        err = np.abs(G - np.eye(120))
        part.evals += 120 * 120
        if np.max(err) > 1e-10:
            i, j = np.unravel_index(np.argmax(err), err.shape)
            part.violation(PID, 'orthonormal', f'Zernike{fam.capitalize()}.terms', f'family={fam}',
                           dict(i=int(i), j=int(j), nm_i=exp[i], nm_j=exp[j]), observed=float(G[i, j]),
                           expected=float(i == j), tol=1e-10)
    # (4) poly is linear in the coefficients
    rr, pp = np.array([0.0, 0.3, 0.77, 1.0, 0.5]), np.array([0.0, 1.1, -2.3, 3.0, 0.4])
    c1 = [math.sin(1 + 0.7 * k) for k in range(120)]
    c2 = [math.cos(2 + 1.3 * k) / (1 + k % 5) for k in range(120)]
    T = np.array([np.asarray(v, dtype=float) for v in cls(coeffs=[1.0] * 120).terms(rr, pp)])
    for (a, b) in ((1.0, 0.0), (0.0, 1.0), (2.5, -0.75), (3e-9, 0.0), (1e-9, -2e-9), (4e6, 1e6)):     # amplitudes over 15 decades
        c = [a * x + b * y for x, y in zip(c1, c2)]
        got = np.asarray(cls(coeffs=c).poly(rr, pp), dtype=float)
        expv = np.array(c) @ T
        part.evals += 1
        part.transitions += 1
        if np.max(np.abs(got - expv)) > 1e-9 * max(abs(a) + abs(b), np.max(np.abs(expv))):
            part.violation(PID, 'poly-linear', f'Zernike{fam.capitalize()}.poly', f'family={fam}', dict(a=a, b=b),
                           observed=got, expected=expv, tol=1e-9)
    for N in (1, 5, 36, 37, 120):
        for k in (0, N // 2, N - 1):
            c = [0.0] * N
            c[k] = 1.0
            got = np.asarray(cls(coeffs=c).poly(rr, pp), dtype=float)
            part.evals += 1
            if np.max(np.abs(got - T[k])) > 1e-9 * max(1.0, np.max(np.abs(T[k]))):
                part.violation(PID, 'poly-basis', f'Zernike{fam.capitalize()}.poly', f'family={fam},N={N}',
                               dict(k=k), observed=got, expected=T[k], tol=1e-9)
    part.sample(dict(family=fam, first_indices=idx[:8]))


def design(fam, N, x, y):
    cls = fam_class(fam)
    r, phi = np.hypot(x, y), np.arctan2(y, x)
    return np.array([np.asarray(v, dtype=float) * np.ones_like(r) for v in cls(coeffs=[1.0] * N).terms(r, phi)]).T


def ref_design(fam, N, x, y):
    r, phi = np.hypot(x, y), np.arctan2(y, x)
    return np.array([zern.zern(*ref_index(fam, k), r, phi, normalised=(fam != 'fringe')) for k in range(N)]).T


def run_fit(part, unit):
    from optiland.zernike import ZernikeFit
    fam, N, sname = unit['fam'], unit['N'], unit['set']
    x, y = sample_set(sname)
    Aref = ref_design(fam, N, x, y)
    # "sufficiently many well-spread points": the sample set must determine the N terms (decided on the reference
    # design matrix, never on the library's)
    if np.linalg.cond(Aref) > 1e3:
        part.count('skipped-sample-set-does-not-determine-N-terms')
        part.states += 1
        return
    fits = []
    part.states += 1
    for k in range(N):
        # data = the k-th *published* polynomial (sign-insensitive: recovered coefficient must be +-1 on k, 0 elsewhere)
        z = Aref[:, k].copy()
        fits.append(ZernikeFit(x.copy(), y.copy(), z, fam, N))
        part.transitions += 1
    # read all coefficient vectors only now: earlier fits must not be disturbed by later ones
    for k, f in enumerate(fits):
        c = np.asarray(f.coeffs, dtype=float)
        part.evals += 1
        exp = np.zeros(N)
        exp[k] = 1.0
        ok = c.shape == (N,) and np.max(np.abs(np.abs(c) - exp)) <= 1e-8
        if not ok:
            part.violation(PID, 'fit-recovers-basis', 'ZernikeFit', f'family={fam},N={N}', dict(k=k, set=sname, npts=len(x)),
                           observed=c[:min(N, 6)] if c.shape == (N,) else c.shape, expected=f'e_{k} (up to sign)', tol=1e-8)
        part.outcome(fam, N, k, sname)
    part.sample(dict(family=fam, N=N, set=sname, npts=len(x)))


def run_fitlinear(part, unit):
    from optiland.zernike import ZernikeFit
    fam, sname = unit['fam'], unit['set']
    x, y = sample_set(sname)
    z1 = np.exp(0.8 * x) * np.cos(3 * y)
    z2 = (x - 0.3) ** 3 + x * y - np.sin(2 * x + y)
    part.states += 1
    for N in (6, 22, 37):
        if np.linalg.cond(ref_design(fam, N, x, y)) > 1e3:
            part.count('skipped-sample-set-does-not-determine-N-terms')
            continue
        f1 = ZernikeFit(x.copy(), y.copy(), z1.copy(), fam, N)
        f2 = ZernikeFit(x.copy(), y.copy(), z2.copy(), fam, N)
        f3 = ZernikeFit(x.copy(), y.copy(), 1.7 * z1 - 0.4 * z2, fam, N)
        part.transitions += 3
        part.evals += 1
        c1, c2, c3 = (np.asarray(f.coeffs, dtype=float) for f in (f1, f2, f3))
        if c1.shape != (N,) or c2.shape != (N,) or c3.shape != (N,):
            part.violation(PID, 'fit-returns-N-coefficients', 'ZernikeFit', f'family={fam},N={N}', dict(set=sname),
                           observed=[list(c1.shape), list(c2.shape), list(c3.shape)], expected=[N])
            continue
        exp = 1.7 * c1 - 0.4 * c2
        if c3.shape != exp.shape or np.max(np.abs(c3 - exp)) > 1e-7 * max(1.0, np.max(np.abs(exp))):
            part.violation(PID, 'fit-linear-in-data', 'ZernikeFit', f'family={fam},N={N}', dict(set=sname), observed=c3[:6],
                           expected=exp[:6], tol=1e-7)
        # homogeneity over twelve decades of amplitude (data in waves, in nanometres, in metres): residuals far above and far below 1
        for amp in (1e3, 1e-3, 1e-9, 1e-12, 1e8, 1e10):
            f4 = ZernikeFit(x.copy(), y.copy(), amp * z1, fam, N)
            part.transitions += 1
            c4 = np.asarray(f4.coeffs, dtype=float)
            if c4.shape != c1.shape or np.max(np.abs(c4 - amp * c1)) > 1e-5 * amp * max(1.0, np.max(np.abs(c1))):   # iterative solver, finite-difference Jacobian
                part.violation(PID, 'fit-linear-in-data', 'ZernikeFit', f'family={fam},N={N}', dict(set=sname, amplitude=amp), observed=c4[:6],
                               expected=(amp * c1)[:6], tol=1e-5)
        # the same samples handed over as 2-D (gridded) arrays, in either memory layout: a sample is (x[i,j], y[i,j], z[i,j])
        n_ = len(x)
        a_ = next((d for d in range(int(math.isqrt(n_)), 1, -1) if n_ % d == 0), None)
        if a_:
            shp = (a_, n_ // a_)
            asF = lambda v: np.asfortranarray(v.reshape(shp))      # noqa: E731  same logical array, column-major memory
            asC = lambda v: np.ascontiguousarray(v.reshape(shp))   # noqa: E731
            for lname, fx, fz in (('C/C', asC, asC), ('F/C', asF, asC), ('C/F', asC, asF), ('F/F', asF, asF)):
                try:
                    f5 = ZernikeFit(fx(x.copy()), fx(y.copy()), fz(z1.copy()), fam, N)
                    c5 = np.asarray(f5.coeffs, dtype=float)
                except Exception as exc:   # 2-D input not accepted at all: nothing to compare
                    part.count('gridded-input-not-accepted')
                    break
                part.transitions += 1
                part.count('cmp:gridded-layouts')
                if c5.shape != c1.shape or np.max(np.abs(c5 - c1)) > 1e-7 * max(1.0, np.max(np.abs(c1))):
                    part.violation(PID, 'fit-independent-of-array-shape-and-memory-layout', 'ZernikeFit', f'family={fam},N={N}',
                                   dict(set=sname, shape=list(shp), layout_xy_z=lname), observed=c5[:6], expected=c1[:6], tol=1e-7)
        # the fit is the least-squares solution: residual orthogonal to every fitted term
        A = design(fam, N, x, y)
        res = z1 - A @ c1
        g = A.T @ res
        if np.max(np.abs(g)) > 1e-6 * max(1.0, np.linalg.norm(z1)):
            part.violation(PID, 'fit-is-least-squares', 'ZernikeFit', f'family={fam},N={N}', dict(set=sname),
                           observed=float(np.max(np.abs(g))), expected=0.0, tol=1e-6)
        part.outcome(fam, N, sname, c3[:3])


def run_lens(part, unit):
    from optiland.wavefront import ZernikeOPD
    if unit['lens'] == 'vmc.failing-rim-rays':
        # a stop in air in front of a steep plano-convex lens: the outer pupil rays of the off-axis field miss the lens
        surfs = [LZ.S('plane', mat='air', t=5.0, stop=True), LZ.S('sphere', R=10.0, mat=['ideal', 1.5, 0.0], t=10.0), LZ.S('plane', mat='air', t=13.0)]
        o = LZ.build(LZ.spec(surfs, obj=LZ.INF, ap=('EPD', 16.0), ftype='angle', fields=(0.0, 10.0), waves=((0.55, True),)))
    else:
        o = LZ.sample_lenses()[unit['lens']]()
    fam, N = unit['fam'], unit['N']
    zo = ZernikeOPD(o, (0.0, unit['Hy']), o.primary_wavelength, num_rings=6, zernike_type=fam, num_terms=N)
    part.states += 1
    part.transitions += 1
    part.evals += 1
    x, y = np.asarray(zo.x, dtype=float), np.asarray(zo.y, dtype=float)
    z = np.asarray(zo.z, dtype=float)
    c = np.asarray(zo.coeffs, dtype=float)
    det = dict(lens=unit['lens'], Hy=unit['Hy'], N=N)
    cnd = f'family={fam}'
    # failed rays carry no OPD sample: the decomposition is that of the valid samples
    ok = np.isfinite(z)
    if np.sum(ok) < 2 * N:
        part.count('skipped-too-few-valid-samples')
        return
    if not np.all(ok):
        part.count('lens-decompositions-with-failed-rays')
        cnd += ',some-rays-failed'
    x, y, z = x[ok], y[ok], z[ok]
    A = ref_design(fam, N, x, y)
    Alib = design(fam, N, x, y)
    recon = np.asarray(zo.zernike.poly(np.hypot(x, y), np.arctan2(y, x)), dtype=float)
    if c.shape != (N,) or not np.all(np.isfinite(c)) or np.max(np.abs(recon - Alib @ c)) > 1e-9 * max(1.0, np.max(np.abs(z))):
        part.violation(PID, 'decomposition-evaluates-its-coefficients', 'ZernikeOPD', cnd, det, observed=recon[:3],
                       expected=(Alib @ c)[:3] if c.shape == (N,) else 'N coefficients', tol=1e-9)
        return
    best, *_ = np.linalg.lstsq(A, z, rcond=None)
    r_lib = np.linalg.norm(z - recon)
    r_best = np.linalg.norm(z - A @ best)
    if r_lib > r_best * (1 + 1e-6) + 1e-9 * max(1.0, np.linalg.norm(z)):
        part.violation(PID, 'decomposition-reproduces-opd', 'ZernikeOPD', cnd, det, observed=float(r_lib),
                       expected=float(r_best), tol=1e-6)
    g = A.T @ (z - recon)
    if np.max(np.abs(g)) > 1e-6 * max(1.0, np.linalg.norm(z)) * math.sqrt(len(z)):
        part.violation(PID, 'residual-orthogonal-to-terms', 'ZernikeOPD', cnd, det, observed=float(np.max(np.abs(g))),
                       expected=0.0, tol=1e-6)
    part.outcome(unit['lens'], unit['Hy'], fam, c[:4])
    part.sample(det)


def run_unit(unit):
    part = Part(unit)
    dict(family=run_family, fit=run_fit, fitlinear=run_fitlinear, lens=run_lens)[unit['kind']](part, unit)
    return part
