"""C13 - tracing and analysis are repeatable and free of side effects.

History LTS: initial states = 5 lenses (plain; vignetting factors; Fresnel coatings + polarization state; unsorted fields;
asphere + radial aperture); alphabet Q = every tracing / paraxial / aberration / wavefront / PSF / MTF / analysis query. Every
history of length 2 (thorough: length 3 over a sub-alphabet) is executed on a fresh lens; oracle: the result of the last
call is bit-identical to the same call on a fresh lens, the canonical lens state is unchanged, caller-owned arrays and
distribution objects are unchanged, and a ray's result does not depend on its batch.
"""
import copy
import itertools
import math

import numpy as np

from vmc import canon
from vmc import lens as LZ
from vmc.core import Part
from vmc.lens import S, V

PID = 'C13'
META = dict(
    rule='unit = (lens, first operation); evaluation = one history (a, b[, c]) whose last result is compared bit-for-bit with the '
         'same call on a fresh lens; distinct = (lens, history) with a non-empty finite result',
    exhaustive=True,
    bounds=dict(quick='5 lenses (one with fields entered in non-ascending order) x all ordered pairs of 36 query operations + repeats; '
                      '15 sub-batches of a 4-ray batch on every lens for trace_generic and Optic.trace; 15 analysis classes x every '
                      'history (a, q1..qn) of their read-only queries (data, centroid, rms, strehl, coeffs, view...) on ONE analysis object; '
                      '3 lenses x 8 edits x {every query asked before the edit, one of 10 queries asked before the edit}: every query after the '
                      'edit equals the same edit + query on a lens that was never queried',
                thorough='adds all length-3 histories over a 10-operation sub-alphabet (4000) and 4 numeric variants'),
    tolerances=dict(repeat='bit-identical (NaN positions equal)', batch='0 for closed-form surfaces, 5e-9 (50 x the surface tolerance) for iterative ones'),
    assumptions=['unseeded RandomDistribution is excluded (the property excepts it)'],
)


def lenses(v):
    p = V(v)
    g1, g2 = ['ideal', p['n1'], 0.0], ['ideal', p['n2'], 0.0]
    R, t = p['R'], p['t']
    trip = [S('sphere', R=R, mat='N-BK7', t=t[0] + 2, stop=False), S('sphere', R=-4 * R, mat='air', t=t[1]),
            S('sphere', R=-1.4 * R, mat='SF11', t=t[0], stop=True), S('sphere', R=1.6 * R, mat='air', t=t[1]),
            S('sphere', R=3 * R, mat='N-BK7', t=t[0] + 2), S('sphere', R=-1.2 * R, mat='air', t=2.2 * R)]
    w3 = ((0.4861, False), (0.5876, True), (0.6563, False))
    out = {}
    out['plain'] = LZ.spec(trip, obj=LZ.INF, ap=('EPD', p['epd']), ftype='angle', fields=(0.0, 0.7 * p['ang'], p['ang']), waves=w3)
    out['vignetted'] = LZ.spec(trip, obj=LZ.INF, ap=('EPD', p['epd']), ftype='angle',
                               fields=([0.0, 0.0, 0.0], [0.7 * p['ang'], 0.1, 0.15], [p['ang'], 0.25, 0.3]), waves=w3)
    coated = [dict(s_, coating='fresnel') for s_ in trip]
    out['polarized'] = LZ.spec(coated, obj=p['od'][0], ap=('objectNA', p['na']), ftype='object_height', fields=(0.0, 0.7 * p['h'], p['h']),
                               waves=w3, pol=[1.0, 0.6, 0.0, 0.4])
    asp = [S('asph', R=R, k=-0.3, coeffs=[1e-5, -2e-8], mat=g1, t=t[1], stop=True, aperture=[0.48 * p['epd']]),
           S('sphere', R=-2 * R, mat='air', t=2.0 * R, aperture=[0.5 * p['epd'], 0.08 * p['epd']])]
    # fields entered in non-ascending order (0, max, 0.7 max), vignetting on the largest one
    out['unsorted-fields'] = LZ.spec(trip, obj=LZ.INF, ap=('EPD', p['epd']), ftype='angle',
                                     fields=([0.0, 0.0, 0.0], [p['ang'], 0.0, 0.2], [0.7 * p['ang'], 0.0, 0.05]), waves=w3)
    out['asphere-aperture'] = LZ.spec(asp, obj=LZ.INF, ap=('EPD', p['epd']), ftype='angle', fields=(0.0, 0.7 * p['ang'], p['ang']), waves=w3)
    return out


def blob(x):
    """Result -> nested structure of float arrays."""
    if isinstance(x, dict):
        return {str(k): blob(v) for k, v in sorted(x.items(), key=lambda kv: str(kv[0]))}
    if isinstance(x, (list, tuple)):
        return [blob(v) for v in x]
    if isinstance(x, np.ndarray):
        return x.astype(complex if np.iscomplexobj(x) else float).copy()
    if isinstance(x, (int, float, complex, np.number)):
        return np.array(x, dtype=complex if isinstance(x, complex) else float)
    if x is None or isinstance(x, (str, bool)):
        return x
    return repr(type(x))


def blob_equal(a, b):
    if type(a) != type(b):
        return False
    if isinstance(a, dict):
        return a.keys() == b.keys() and all(blob_equal(a[k], b[k]) for k in a)
    if isinstance(a, list):
        return len(a) == len(b) and all(blob_equal(x, y) for x, y in zip(a, b))
    if isinstance(a, np.ndarray):
        return a.shape == b.shape and bool(np.array_equal(a, b, equal_nan=True))
    return a == b


def blob_size(a):
    if isinstance(a, dict):
        return sum(blob_size(v) for v in a.values())
    if isinstance(a, list):
        return sum(blob_size(v) for v in a)
    if isinstance(a, np.ndarray):
        return int(np.sum(np.isfinite(a)))
    return 0


def rays_blob(r):
    return dict(x=r.x, y=r.y, z=r.z, L=r.L, M=r.M, N=r.N, i=r.i, opd=r.opd)


class Caller:
    """Caller-owned inputs of an operation; checked for modification afterwards."""

    def __init__(self):
        self.arrays = {}
        self.before = {}

    def own(self, name, arr):
        self.arrays[name] = arr
        self.before[name] = np.array(arr, copy=True)
        return arr

    def modified(self):
        return [n for n, a in self.arrays.items() if not np.array_equal(a, self.before[n], equal_nan=True)]


def ops():
    """name -> function(optic, caller) -> result"""
    from optiland import analysis as AN
    from optiland import distribution as DD
    from optiland.wavefront import Wavefront, OPD, ZernikeOPD, OPDFan
    from optiland.psf import FFTPSF
    from optiland.mtf import FFTMTF, GeometricMTF
    from optiland.optimization.operand import RayOperand
    Q = {}
    W = 0.5876

    def dist_obj(c, name, n):
        d = DD.create_distribution(name)
        d.generate_points(n)
        c.own('distribution.x', d.x)
        c.own('distribution.y', d.y)
        return d
    Q['trace-hexapolar'] = lambda o, c: rays_blob(o.trace(0.0, 1.0, W, 3, 'hexapolar'))
    Q['trace-uniform-offaxis'] = lambda o, c: rays_blob(o.trace(0.0, 0.7, 0.4861, 5, 'uniform'))
    Q['trace-distribution-object'] = lambda o, c: rays_blob(o.trace(0.0, 1.0, W, None, dist_obj(c, 'hexapolar', 3)))
    Q['trace-distribution-object-axis'] = lambda o, c: rays_blob(o.trace(0.0, 0.0, W, None, dist_obj(c, 'cross', 5)))
    Q['trace_generic-scalars'] = lambda o, c: rays_blob(o.trace_generic(0.0, 0.7, 0.3, -0.5, W))
    Q['trace_generic-arrays'] = lambda o, c: rays_blob(o.trace_generic(c.own('Hx', np.zeros(6)), c.own('Hy', np.array([0., 0.5, 1., 1., -1., 0.7])),
                                                                      c.own('Px', np.array([0., 0.2, -0.4, 1., 0.3, 0.0])),
                                                                      c.own('Py', np.array([0., 0.9, 0.1, 0.0, -0.6, 1.0])), 0.6563))
    Q['trace_generic-mixed'] = lambda o, c: rays_blob(o.trace_generic(0.0, 1.0, c.own('Px', np.linspace(-1, 1, 5)), c.own('Py', np.zeros(5)), W))
    Q['paraxial-cardinal'] = lambda o, c: [o.paraxial.f1(), o.paraxial.f2(), o.paraxial.F1(), o.paraxial.F2(), o.paraxial.P1(), o.paraxial.P2(),
                                            o.paraxial.N1(), o.paraxial.N2()]
    Q['paraxial-pupils'] = lambda o, c: [o.paraxial.EPL(), o.paraxial.EPD(), o.paraxial.XPL(), o.paraxial.XPD(), o.paraxial.FNO()]
    Q['paraxial-marginal'] = lambda o, c: list(o.paraxial.marginal_ray())
    Q['paraxial-chief'] = lambda o, c: list(o.paraxial.chief_ray())
    Q['paraxial-invariant'] = lambda o, c: [o.paraxial.invariant(), o.paraxial.magnification()]
    Q['paraxial-trace'] = lambda o, c: (o.paraxial.trace(0.5, 0.5, W), [o.surface_group.y, o.surface_group.u])[1]
    Q['third_order'] = lambda o, c: list(o.aberrations.third_order())
    Q['seidels'] = lambda o, c: o.aberrations.seidels()
    Q['wavefront'] = lambda o, c: [list(fd) for row in Wavefront(o, 'all', 'all', 3, 'hexapolar').data for fd in row]
    Q['opd-rms'] = lambda o, c: OPD(o, (0.0, 1.0), W, 3).rms()
    Q['opd-fan'] = lambda o, c: [list(fd) for row in OPDFan(o, [(0.0, 0.7)], [W], 5).data for fd in row]
    Q['zernike-opd'] = lambda o, c: ZernikeOPD(o, (0.0, 1.0), W, 3, 'fringe', 11).coeffs
    Q['fft-psf'] = lambda o, c: (lambda p_: [p_.psf, p_.strehl_ratio()])(FFTPSF(o, (0.0, 0.7), W, 16, 64))
    Q['fft-mtf'] = lambda o, c: (lambda m_: [m_.mtf, m_.max_freq])(FFTMTF(o, [(0.0, 1.0)], W, 16, 64))
    Q['geometric-mtf'] = lambda o, c: (lambda m_: [m_.mtf, m_.freq])(GeometricMTF(o, [(0.0, 1.0)], W, 8, 'uniform', 16))
    Q['spot-diagram'] = lambda o, c: (lambda s_: [s_.data, s_.centroid(), s_.rms_spot_radius(), s_.geometric_spot_radius()])(
        AN.SpotDiagram(o, 'all', 'all', 3, 'hexapolar'))
    Q['ray-fan'] = lambda o, c: AN.RayFan(o, 'all', 'all', 5).data
    Q['encircled-energy'] = lambda o, c: (lambda e_: [e_.data, e_.centroid()])(AN.EncircledEnergy(o, 'all', W, 3, 'hexapolar', 16))
    Q['distortion'] = lambda o, c: AN.Distortion(o, 'all', 6, 'f-tan').data
    Q['grid-distortion'] = lambda o, c: AN.GridDistortion(o, 'primary', 4).data
    Q['field-curvature'] = lambda o, c: AN.FieldCurvature(o, 'all', 6).data
    Q['pupil-aberration'] = lambda o, c: AN.PupilAberration(o, 'all', [W], 5).data
    Q['rms-vs-field'] = lambda o, c: (lambda r_: [r_._spot_size])(AN.RmsSpotSizeVsField(o, 4, 'all', 3))
    Q['rms-wavefront-vs-field'] = lambda o, c: (lambda r_: [r_._wavefront_error])(AN.RmsWavefrontErrorVsField(o, 3, [W], 3))
    Q['index'] = lambda o, c: [o.n(), o.n(0.4861)]
    Q['operands'] = lambda o, c: [RayOperand.rms_spot_size(o, -1, 0.0, 1.0, 3, 'all'), RayOperand.OPD_difference(o, 0.0, 1.0, 3, W),
                                   RayOperand.y_intercept(o, -1, 0.0, 1.0, 0.0, 0.5, W)]
    Q['update_paraxial'] = lambda o, c: (o.update_paraxial(), [s.semi_aperture for s in o.surface_group.surfaces])[1]
    return Q


def analysis_objects():
    """name -> (constructor(optic), {query name: function(analysis object)}); every query is read-only."""
    from optiland import analysis as AN
    from optiland.wavefront import OPD, ZernikeOPD, OPDFan
    from optiland.psf import FFTPSF
    from optiland.mtf import FFTMTF, GeometricMTF
    import matplotlib.pyplot as plt
    W = 0.5876

    def view(obj, *a, **k):
        try:
            obj.view(*a, **k)
        finally:
            plt.close('all')
        return None
    spot = {'data': lambda s: s.data, 'centroid': lambda s: s.centroid(), 'rms_spot_radius': lambda s: s.rms_spot_radius(),
            'geometric_spot_radius': lambda s: s.geometric_spot_radius(), 'view': view}
    A = {}
    A['SpotDiagram'] = (lambda o: AN.SpotDiagram(o, 'all', 'all', 3, 'hexapolar'), spot)
    A['EncircledEnergy'] = (lambda o: AN.EncircledEnergy(o, 'all', W, 3, 'hexapolar', 16), spot)
    A['GeometricMTF'] = (lambda o: GeometricMTF(o, 'all', W, 6, 'uniform', 16),
                         dict(spot, mtf=lambda m: [m.mtf, m.freq], view=lambda m: view(m, add_reference=True)))
    A['RmsSpotSizeVsField'] = (lambda o: AN.RmsSpotSizeVsField(o, 4, 'all', 3),
                               {'data': lambda s: s.data, 'curve': lambda s: [s._field, s._spot_size], 'centroid': lambda s: s.centroid(),
                                'rms_spot_radius': lambda s: s.rms_spot_radius(), 'view': view})
    A['OPD'] = (lambda o: OPD(o, (0.0, 1.0), W, 3), {'data': lambda w: [list(fd) for row in w.data for fd in row], 'rms': lambda w: w.rms(),
                                                     'view': lambda w: view(w, num_points=16), 'view3d': lambda w: view(w, '3d', 16)})
    A['OPDFan'] = (lambda o: OPDFan(o, 'all', [W], 5), {'data': lambda w: [list(fd) for row in w.data for fd in row], 'view': view})
    A['ZernikeOPD'] = (lambda o: ZernikeOPD(o, (0.0, 1.0), W, 3, 'fringe', 11),
                       {'data': lambda w: [list(fd) for row in w.data for fd in row], 'coeffs': lambda w: w.coeffs, 'rms': lambda w: w.rms(),
                        'zernike-poly': lambda w: w.zernike.poly(np.array([0.0, 0.5, 1.0]), np.array([0.0, 1.0, 2.0])),
                        'view': lambda w: view(w, num_points=16), 'view_residual': lambda w: (w.view_residual(), plt.close('all'))[1]})
    A['FFTPSF'] = (lambda o: FFTPSF(o, (0.0, 0.7), W, 16, 64), {'data': lambda p_: [list(fd) for row in p_.data for fd in row],
                                                                  'psf': lambda p_: p_.psf, 'pupils': lambda p_: p_.pupils,
                                                                  'strehl': lambda p_: p_.strehl_ratio(),
                                                                  'view': lambda p_: view(p_, num_points=16), 'view-log3d': lambda p_: view(p_, '3d', True, num_points=16)})
    A['FFTMTF'] = (lambda o: FFTMTF(o, 'all', W, 16, 64), {'mtf': lambda m: [m.mtf, m.max_freq], 'psf': lambda m: m.psf,
                                                            'view': lambda m: view(m, add_reference=True)})
    A['RayFan'] = (lambda o: AN.RayFan(o, 'all', 'all', 5), {'data': lambda r: r.data, 'view': view})
    A['Distortion'] = (lambda o: AN.Distortion(o, 'all', 6, 'f-tan'), {'data': lambda r: r.data, 'view': view})
    A['GridDistortion'] = (lambda o: AN.GridDistortion(o, 'primary', 4), {'data': lambda r: r.data, 'view': view})
    A['FieldCurvature'] = (lambda o: AN.FieldCurvature(o, 'all', 6), {'data': lambda r: r.data, 'view': view})
    A['PupilAberration'] = (lambda o: AN.PupilAberration(o, 'all', [W], 5), {'data': lambda r: r.data, 'view': view})
    A['RmsWavefrontErrorVsField'] = (lambda o: AN.RmsWavefrontErrorVsField(o, 3, 'all', 3),
                                     {'curve': lambda s: [s._field, s._wavefront_error], 'view': view})
    return A


def edits(v):
    """name -> function(optic): operations whose purpose is to edit the lens."""
    p = V(v)
    E = {}
    E['set_radius'] = lambda o: o.set_radius(1.15 * p['R'], 1)
    E['set_thickness'] = lambda o: o.set_thickness(p['t'][1] + 1.5, 1)
    E['set_index'] = lambda o: o.set_index(1.62, 1)
    E['set_conic'] = lambda o: o.set_conic(-0.4, 1)
    E['set_aperture'] = lambda o: o.set_aperture(o.aperture.ap_type, 0.7 * o.aperture.value)
    E['add_field'] = lambda o: o.add_field(y=1.2 * max(f.y for f in o.fields.fields))
    E['add_wavelength'] = lambda o: o.add_wavelength(0.52, is_primary=True)
    E['image-distance'] = lambda o: o.set_thickness(float(np.ravel(o.surface_group.get_thickness(o.surface_group.num_surfaces - 2))[0]) + 0.3,
                                                    o.surface_group.num_surfaces - 2)
    return E


def run_edit_between(part, unit):
    """(queries, edit e, query b) on one lens == (edit e, query b) on a lens nothing was asked of before the edit: whatever a
    query leaves behind (cached rays, matrices, indices, pupils) must not survive an edit of the lens. `first` is one query or
    'all' (every query of the alphabet asked once before the edit)."""
    Q = ops()
    E = edits(unit['variant'])
    sp = lenses(unit['variant'])[unit['lens']]
    a, e = unit['first'], unit['edit']
    cold = LZ.build(sp)
    E[e](cold)
    want = {}
    for b in Q:
        try:
            want[b] = blob(Q[b](cold, Caller()))
        except Exception:        # the edited lens cannot answer this query at all: nothing to compare
            part.count('query-undefined-on-edited-lens')
    warm = LZ.build(sp)
    part.states += 2
    det0 = dict(lens=unit['lens'], before_edit=a, edit=e, variant=unit['variant'])
    for q in (list(Q) if a == 'all' else [a]):
        try:
            Q[q](warm, Caller())
        except Exception:
            part.count('query-undefined-on-lens')
        part.transitions += 1
    E[e](warm)
    part.transitions += 1
    for b in Q:
        if b not in want:
            continue
        got = blob(Q[b](warm, Caller()))
        part.transitions += 2
        part.evals += 1
        if not blob_equal(got, want[b]):
            part.violation(PID, 'independent-of-what-was-done-before', b, f'lens={unit["lens"]},edit-between={e}', dict(det0, query=b),
                           observed='result differs from the same edit and call on a lens that was not queried before the edit',
                           expected='bit-identical')
        if blob_size(got) > 0:
            part.outcome(unit['lens'], a, e, b)
    part.sample(det0)


def run_requery(part, unit):
    """Queries on ONE analysis object: each answer equals the answer of a fresh object, whatever was asked before."""
    ctor, qs = analysis_objects()[unit['object']]
    sp = lenses(unit['variant'])[unit['lens']]
    site = unit['object']
    fresh = {}
    for q in qs:
        o = LZ.build(sp)
        obj = ctor(o)
        fresh[q] = blob(qs[q](obj))
        part.transitions += 1
    for a in qs:
        o = LZ.build(sp)
        before = canon.optic(o)
        obj = ctor(o)
        part.states += 1
        hist = [a]
        blob(qs[a](obj))
        for b in qs:
            hist.append(b)
            got = blob(qs[b](obj))
            part.transitions += 1
            part.evals += 1
            if not blob_equal(got, fresh[b]):
                part.violation(PID, 'analysis-object-answers-do-not-depend-on-earlier-queries', f'{site}.{b}', f'lens={unit["lens"]},after={a}',
                               dict(lens=unit['lens'], object=site, history=list(hist), variant=unit['variant']),
                               observed='answer differs from the same query on a fresh analysis object', expected='bit-identical')
                break
            if blob_size(got) > 0:
                part.outcome(unit['lens'], site, a, b)
        after = canon.optic(o)
        if after != before:
            part.violation(PID, 'lens-not-changed-by-queries', site, f'lens={unit["lens"]}', dict(lens=unit['lens'], object=site, history=hist),
                           observed=canon.diff(before, after), expected='prescription, fields, wavelengths, aperture unchanged')
    part.sample(dict(lens=unit['lens'], object=site, queries=list(qs)))


SUB = ['trace-hexapolar', 'trace-distribution-object', 'trace_generic-arrays', 'paraxial-chief', 'third_order', 'wavefront', 'fft-psf',
       'spot-diagram', 'pupil-aberration', 'update_paraxial']


def units(tier, variant):
    names = list(ops().keys())
    out = []
    for ln in lenses(variant):
        for a in names:
            out.append(dict(kind='pairs', lens=ln, first=a, variant=variant))
        out.append(dict(kind='batch', lens=ln, variant=variant))
        for name in analysis_objects():
            out.append(dict(kind='requery', lens=ln, object=name, variant=variant))
        if ln in ('plain', 'polarized', 'asphere-aperture'):
            firsts = ['all'] + (SUB if (tier == 'thorough' or ln == 'asphere-aperture') else [])
            for a in firsts:
                for e in edits(variant):
                    out.append(dict(kind='edit-between', lens=ln, first=a, edit=e, variant=variant))
        if tier == 'thorough':
            for a in SUB:
                for b in SUB:
                    out.append(dict(kind='triples', lens=ln, first=a, second=b, variant=variant))
    return out


def run_op(part, Q, name, o, det, check_effects=True):
    """Run one operation; returns its result blob. Checks caller arrays and the lens state around it."""
    c = Caller()
    before = canon.optic(o)
    res = blob(Q[name](o, c))
    part.transitions += 1
    if check_effects:
        mod = c.modified()
        if mod:
            part.violation(PID, 'caller-arrays-not-modified', name, f'lens={det["lens"]}', dict(det, modified=mod), observed=mod,
                           expected='arrays passed in by the caller are unchanged')
        after = canon.optic(o)
        if after != before:
            part.violation(PID, 'lens-not-changed-by-queries', name, f'lens={det["lens"]}', dict(det, op=name),
                           observed=canon.diff(before, after), expected='prescription, fields, wavelengths, aperture unchanged')
    return res


def run_pairs(part, unit):
    Q = ops()
    specs = lenses(unit['variant'])
    sp = specs[unit['lens']]
    a = unit['first']
    fresh = {}
    for b in Q:
        o = LZ.build(sp)
        fresh[b] = run_op(part, Q, b, o, dict(lens=unit['lens'], history=[b]))
        part.states += 1
    # repeat: (a, a)
    for b in Q:
        o = LZ.build(sp)
        det = dict(lens=unit['lens'], history=[a, b], variant=unit['variant'])
        run_op(part, Q, a, o, det, check_effects=False)
        got = run_op(part, Q, b, o, det)
        part.evals += 1
        part.states += 1
        clause = 'repeat-bit-identical' if a == b else 'independent-of-what-was-done-before'
        if not blob_equal(got, fresh[b]):
            part.violation(PID, clause, b, f'lens={unit["lens"]}', det, observed='result differs from the same call on a fresh lens',
                           expected='bit-identical')
        if blob_size(got) > 0:
            part.outcome(unit['lens'], a, b)
    part.sample(dict(lens=unit['lens'], first=a, second_ops=len(Q)))


def run_triples(part, unit):
    Q = ops()
    sp = lenses(unit['variant'])[unit['lens']]
    fresh = {}
    for c_ in SUB:
        o = LZ.build(sp)
        fresh[c_] = run_op(part, Q, c_, o, dict(lens=unit['lens'], history=[c_]))
    for c_ in SUB:
        o = LZ.build(sp)
        det = dict(lens=unit['lens'], history=[unit['first'], unit['second'], c_], variant=unit['variant'])
        run_op(part, Q, unit['first'], o, det, check_effects=False)
        run_op(part, Q, unit['second'], o, det, check_effects=False)
        got = run_op(part, Q, c_, o, det)
        part.evals += 1
        part.states += 1
        if not blob_equal(got, fresh[c_]):
            part.violation(PID, 'independent-of-what-was-done-before', c_, f'lens={unit["lens"]}', det,
                           observed='result differs from the same call on a fresh lens', expected='bit-identical')
        if blob_size(got) > 0:
            part.outcome(unit['lens'], unit['first'], unit['second'], c_)


class _Dist:
    def __init__(self, x, y):
        self.x = np.array(x, dtype=float)
        self.y = np.array(y, dtype=float)


def run_batch(part, unit):
    """The result for one ray does not depend on which other rays are traced in the same call."""
    sp = lenses(unit['variant'])[unit['lens']]
    o = LZ.build(sp)
    part.states += 1
    iterative = unit['lens'] == 'asphere-aperture'
    # closed-form surfaces: exact. Iterative surfaces: the documented intersection tolerance is 1e-10 mm on the sag residual;
    # a ray's record may move by a small multiple of it with the batch (the loop runs until every ray of the batch converged)
    tol = 5e-9 if iterative else 0.0
    for Hy in (0.0, 1.0):
        PX = np.array([0.0, 0.4, -0.7, 0.1])
        PY = np.array([0.0, 0.5, 0.2, -0.9])
        alone = []
        for i in range(4):
            r = o.trace_generic(0.0, Hy, float(PX[i]), float(PY[i]), 0.5876)
            alone.append(rays_blob(r))
        alone_t = []
        for i in range(4):
            r = o.trace(0.0, Hy, 0.5876, None, _Dist([PX[i]], [PY[i]]))
            alone_t.append(rays_blob(r))
        part.transitions += 8
        for k in range(1, 5):
            for sub in itertools.combinations(range(4), k):
                idx = list(sub)
                for how, ref in (('trace_generic', alone), ('trace', alone_t)):
                    if how == 'trace_generic':
                        r = o.trace_generic(np.zeros(k), np.full(k, Hy), PX[idx].copy(), PY[idx].copy(), 0.5876)
                    else:
                        r = o.trace(0.0, Hy, 0.5876, None, _Dist(PX[idx], PY[idx]))
                    part.transitions += 1
                    part.evals += 1
                    rb = rays_blob(r)
                    for j, i in enumerate(idx):
                        for key in rb:
                            a_, b_ = float(np.asarray(rb[key])[j]), float(np.asarray(ref[i][key])[0])
                            same = (math.isnan(a_) and math.isnan(b_)) or abs(a_ - b_) <= tol
                            if not same:
                                part.violation(PID, 'ray-independent-of-its-batch', f'Optic.{how}', f'lens={unit["lens"]}',
                                               dict(lens=unit['lens'], Hy=Hy, batch=idx, ray=i, quantity=key, variant=unit['variant']),
                                               observed=a_, expected=b_, tol=tol)
                    part.outcome(unit['lens'], Hy, how, tuple(idx))
    # ---- per-ray wavelength arrays: every sub-batch of 4 rays with 3 different wavelengths against each ray traced alone
    WL = np.array([0.4861, 0.5876, 0.6563, 0.5876])
    for Hy in (0.0, 1.0):
        PX = np.array([0.0, 0.4, -0.7, 0.1])
        PY = np.array([0.3, 0.5, 0.2, -0.9])
        try:
            alone = [rays_blob(o.trace_generic(0.0, Hy, float(PX[i]), float(PY[i]), float(WL[i]))) for i in range(4)]
            o.trace_generic(np.zeros(2), np.full(2, Hy), PX[:2].copy(), PY[:2].copy(), WL[:2].copy())
        except Exception:
            part.count('wavelength-array-not-accepted')
            break
        part.transitions += 4
        for k in range(1, 5):
            for sub in itertools.combinations(range(4), k):
                idx = list(sub)
                wl = WL[idx].copy()
                r = o.trace_generic(np.zeros(k), np.full(k, Hy), PX[idx].copy(), PY[idx].copy(), wl)
                part.transitions += 1
                part.evals += 1
                part.count('cmp:wavelength-array-batches')
                if not np.array_equal(wl, WL[idx]):
                    part.violation(PID, 'caller-arrays-not-modified', 'Optic.trace_generic', f'lens={unit["lens"]},wavelength-array',
                                   dict(lens=unit['lens'], Hy=Hy, batch=idx), observed=list(wl), expected=list(WL[idx]))
                rb = rays_blob(r)
                for j, i in enumerate(idx):
                    for key in rb:
                        a_, b_ = float(np.asarray(rb[key])[j]), float(np.asarray(alone[i][key])[0])
                        same = (math.isnan(a_) and math.isnan(b_)) or abs(a_ - b_) <= tol
                        if not same:
                            part.violation(PID, 'ray-independent-of-its-batch', 'Optic.trace_generic', f'lens={unit["lens"]},wavelength-array',
                                           dict(lens=unit['lens'], Hy=Hy, batch=idx, ray=i, quantity=key, wavelengths=list(WL[idx]),
                                                variant=unit['variant']), observed=a_, expected=b_, tol=tol)
                part.outcome(unit['lens'], Hy, 'trace_generic-wavelength-array', tuple(idx))
    part.sample(dict(lens=unit['lens'], batches='all 15 subsets of 4 rays x 2 fields x {trace_generic, trace, trace_generic with a wavelength array}'))


def run_unit(unit):
    part = Part(unit)
    {'pairs': run_pairs, 'triples': run_triples, 'batch': run_batch, 'requery': run_requery, 'edit-between': run_edit_between}[unit['kind']](part, unit)
    return part
