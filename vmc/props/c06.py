"""C06 - analytically stigmatic systems are imaged perfectly.

Finite parameter lattice over the closed-form families (paraboloid at infinity - both radius signs via a fold
mirror -, ellipsoid between its foci in both directions, Cassegrain/Gregorian paraboloid+hyperboloid/ellipsoid pairs,
plano-hyperbolic singlet k=-n^2, elliptical immersion front k=-1/n^2, spherical mirror at its centre of curvature,
aplanatic points of a refracting sphere) x aperture menu up to the geometric limit x surrounding medium x two ways of
reaching the same prescription (direct construction; sphere first, then set_conic after a trace).
Oracle: the closed form - every ray through the image point, equal optical paths, zero reported wavefront error, Strehl 1.
"""
import math

import numpy as np

from vmc import lens as LZ
from vmc.core import Part
from vmc.lens import S

PID = 'C06'
META = dict(
    rule='unit = one closed-form system (family, parameters, aperture, medium, construction history); evaluation = one '
         'trace / Wavefront / FFTPSF call; non-trivial = at least 80 percent of the pupil rays exist; distinct = system '
         'parameters',
    exhaustive=True,
    bounds=dict(quick='8 families x radius/eccentricity/index lattice x 3-4 apertures (to f/0.6, NA 0.6) x media {1, 1.5} x '
                      '{direct, set_conic history}: ~300 systems',
                thorough='finer lattice (~1500 systems), 4 seeds identical (the lattice is fixed by the closed forms)'),
    tolerances=dict(ray_miss='1e-9 x track', path_spread='1e-9 x path', wavefront='1e-6 waves', strehl='1e-9'),
    assumptions=['closed-form conic optics (Cartesian surfaces)'],
)
ALL_VARIANTS_IN_THOROUGH = False


def systems(tier):
    out = []
    fnos = [4.0, 2.0, 1.0, 0.6]
    Rs = [-50.0, -200.0] if tier == 'quick' else [-20.0, -50.0, -120.0, -200.0, -1000.0]
    ns_med = [None, 1.5] if tier == 'quick' else [None, 1.3, 1.5, 2.5]
    for R in Rs:
        for fno in fnos:
            for med in ns_med:
                for hist in ('direct', 'set_conic'):
                    out.append(dict(fam='paraboloid', R=R, fno=fno, med=med, hist=hist))
            out.append(dict(fam='fold+paraboloid', R=-R, fno=fno, med=None, hist='direct'))
    es = [0.3, 0.6] if tier == 'quick' else [0.15, 0.3, 0.45, 0.6, 0.8]
    for a in ([60.0, 100.0] if tier == 'quick' else [30.0, 60.0, 100.0, 250.0]):
        for e in es:
            for na in (0.05, 0.2, 0.35):
                for med in ns_med:
                    for hist in ('direct', 'set_conic'):
                        out.append(dict(fam='ellipsoid', a=a, e=e, na=na, med=med, hist=hist, direction='far->near'))
            for na in (0.1, 0.35, 0.6):
                out.append(dict(fam='ellipsoid', a=a, e=e, na=na, med=None, hist='direct', direction='near->far'))
    for epd in (20.0, 60.0, 120.0, 160.0):
        for q in ((100.0,) if tier == 'quick' else (60.0, 100.0, 180.0)):
            out.append(dict(fam='cassegrain', R1=-200.0, d=70.0, q=q, epd=epd, hist='direct'))
            out.append(dict(fam='cassegrain', R1=-200.0, d=70.0, q=q, epd=epd, hist='set_conic'))
            out.append(dict(fam='gregorian', R1=-200.0, d=130.0, q=q, epd=epd, hist='direct'))
    for n in (1.3, 1.5, 2.0, 4.0):
        for frac in (0.2, 0.5, 0.8):
            for hist in ('direct', 'set_conic'):
                out.append(dict(fam='plano-hyperbolic', n=n, R=-30.0, frac=frac, hist=hist))
            out.append(dict(fam='elliptical-immersion', n=n, R=30.0, frac=frac, hist='direct'))
            out.append(dict(fam='elliptical-immersion', n=n, R=-30.0, frac=frac, hist='direct', fold=True))
    # the same singlet made image-space telecentric (stop in the front focal plane: exit pupil at infinity), and nearly so
    for n in (1.5, 2.0):
        for off in (0.0, 1e-6, 0.5):
            out.append(dict(fam='plano-hyperbolic', n=n, R=-30.0, frac=0.5, hist='direct', stop_in_front_focal_plane=True, stop_offset=off))
    # the same singlet in a dispersive glass, made stigmatic for one of the lens's wavelengths (primary or not)
    for glass in ('N-BK7', 'SF11', ['abbe', 1.62, 36.4]):
        for wd in (0.4861, 0.5876, 0.6563):
            out.append(dict(fam='plano-hyperbolic', glass=glass, wd=wd, R=-30.0, frac=0.5, hist='direct'))
    for R in Rs:
        for na in (0.1, 0.4, 0.6):
            for med in ns_med:
                out.append(dict(fam='sphere-at-centre', R=R, na=na, med=med, hist='direct'))
    for n in (1.3, 1.5, 2.0, 4.0):
        for R in (Rs[:2]):
            for na in (0.05, 0.15, 0.25):
                out.append(dict(fam='aplanatic', n=n, R=R, na=na, direction='air->glass'))
                out.append(dict(fam='aplanatic', n=n, R=R, na=na, direction='glass->air'))
    return out


def units(tier, variant):
    return systems(tier)


def conic_surface(u, R, k, **kw):
    """A conic; with the 'set_conic' history it is first built as a sphere and edited later."""
    if u.get('hist') == 'set_conic':
        return S('sphere', R=R, k=0.0, **kw), k
    return S('conic', R=R, k=k, **kw), None


def make(u):
    """-> (spec, image point (x,y,z) or None, later edits [(surface index, k)], scale, virtual-image info)"""
    fam = u['fam']
    med = u.get('med')
    mm = ['ideal', med, 0.0] if med else None
    edits = []
    w = ((0.55, True),)
    if fam == 'paraboloid':
        R = u['R']
        s, k = conic_surface(u, R, -1.0, mat='mirror', t=R / 2, stop=True)
        if k is not None:
            edits.append((1, k))
        sp = LZ.spec([s], obj=LZ.INF, ap=('EPD', abs(R) / 2 / u['fno']), fields=(0.0,), waves=w, obj_mat=mm,
                     img=S('plane', mat=mm) if mm else None)
        return sp, (0, 0, R / 2), edits, abs(R)
    if fam == 'fold+paraboloid':
        R = u['R']                       # positive
        # the paraboloid rim must stay behind the fold mirror plane: gap = rim sag + 30
        d = 30.0 + (R / 2 / u['fno'] / 2) ** 2 / (2 * R)
        surfs = [S('plane', mat='mirror', t=-d, stop=True), S('conic', R=R, k=-1.0, mat='mirror', t=R / 2)]
        sp = LZ.spec(surfs, obj=LZ.INF, ap=('EPD', R / 2 / u['fno']), fields=(0.0,), waves=w)
        return sp, (0, 0, -d + R / 2), edits, R
    if fam == 'ellipsoid':
        a, e = u['a'], u['e']
        c = a * e
        R = -a * (1 - e * e)
        s, k = conic_surface(u, R, -e * e, mat='mirror', t=0.0, stop=True)
        if k is not None:
            edits.append((1, k))
        if u['direction'] == 'far->near':
            obj, img_t = a + c, -(a - c)
        else:
            obj, img_t = a - c, -(a + c)
        s['t'] = img_t
        sp = LZ.spec([s], obj=obj, ap=('objectNA', u['na'] * (med or 1.0)), ftype='object_height', fields=(0.0,), waves=w,
                     obj_mat=mm, img=S('plane', mat=mm) if mm else None)
        return sp, (0, 0, img_t), edits, 2 * a
    if fam in ('cassegrain', 'gregorian'):
        R1, d, q = u['R1'], u['d'], u['q']
        f1 = abs(R1) / 2
        p = abs(f1 - d)
        if fam == 'cassegrain':
            a_, c_ = (q - p) / 2, (q + p) / 2
            e = c_ / a_
            R2 = -a_ * (e * e - 1)
        else:
            a_, c_ = (q + p) / 2, (q - p) / 2
            e = c_ / a_
            R2 = a_ * (1 - e * e)
        s1 = S('conic', R=R1, k=-1.0, mat='mirror', t=-d, stop=True)
        s2, k = conic_surface(u, R2, -e * e, mat='mirror', t=q)
        if k is not None:
            edits.append((2, k))
        sp = LZ.spec([s1, s2], obj=LZ.INF, ap=('EPD', u['epd']), fields=(0.0,), waves=w)
        return sp, (0, 0, -d + q), edits, abs(R1)
    if fam == 'plano-hyperbolic':
        glass = u.get('glass')
        n, R = (LZ.ref_index(glass, u['wd']) if glass else u['n']), u['R']
        if glass:
            w = ((0.4861, False), (0.5876, True), (0.6563, False))
        f = R / (1 - n)
        # every height refracts (the asymptote is the critical angle); aperture menu as a fraction of |R|/sqrt(n^2-1)
        hmax = abs(R) / math.sqrt(n * n - 1)
        s2, k = conic_surface(u, R, -n * n, mat='air', t=f)
        if k is not None:
            edits.append((2, k))
        h = u['frac'] * hmax
        # centre thickness large enough for the rim of the (concave towards -z) exit face to stay behind the flat face
        ct = 2.0 + abs(h * h / (R * (1 + math.sqrt(1 + (n * n - 1) * h * h / (R * R)))))
        if u.get('stop_in_front_focal_plane'):
            # image-space telecentric: a stop in air in the front focal plane (first principal plane ct/n behind the flat face)
            t0 = f - ct / n + u.get('stop_offset', 0.0)
            surfs = [S('plane', mat='air', t=t0, stop=True), S('plane', mat=['ideal', n, 0.0], t=ct), s2]
            sp = LZ.spec(surfs, obj=LZ.INF, ap=('EPD', 2 * h), fields=(0.0,), waves=w)
            return sp, (0, 0, t0 + ct + f), edits, f
        surfs = [S('plane', mat=glass if glass else ['ideal', n, 0.0], t=ct, stop=True), s2]
        sp = LZ.spec(surfs, obj=LZ.INF, ap=('EPD', 2 * h), fields=(0.0,), waves=w)
        return sp, (0, 0, ct + f), edits, f
    if fam == 'elliptical-immersion':
        n, R = u['n'], u['R']
        g = ['ideal', n, 0.0]
        b = abs(R) / math.sqrt(1 - 1 / (n * n))      # semi-minor axis: rim of the sag domain
        if u.get('fold'):
            # light reversed by a fold mirror, then a surface with R<0 met from the right
            f = abs(R) * n / (n - 1)
            surfs = [S('plane', mat='mirror', t=-20.0, stop=True), S('conic', R=R, k=-1 / (n * n), mat=g, t=-f)]
            sp = LZ.spec(surfs, obj=LZ.INF, ap=('EPD', 2 * u['frac'] * b * 0.9), fields=(0.0,), waves=w, img=S('plane', mat=g))
            return sp, (0, 0, -20.0 - f), edits, f
        f = R * n / (n - 1)
        surfs = [S('conic', R=R, k=-1 / (n * n), mat=g, t=f, stop=True)]
        sp = LZ.spec(surfs, obj=LZ.INF, ap=('EPD', 2 * u['frac'] * b * 0.9), fields=(0.0,), waves=w, img=S('plane', mat=g))
        return sp, (0, 0, f), edits, f
    if fam == 'sphere-at-centre':
        R = u['R']
        surfs = [S('sphere', R=R, mat='mirror', t=R, stop=True)]
        sp = LZ.spec(surfs, obj=abs(R), ap=('objectNA', u['na'] * (med or 1.0)), ftype='object_height', fields=(0.0,),
                     waves=w, obj_mat=mm, img=S('plane', mat=mm) if mm else None)
        return sp, (0, 0, R), edits, abs(R)
    raise ValueError(fam)


def trace_fan(o, w):
    from optiland.distribution import create_distribution
    d = create_distribution('hexapolar')
    d.generate_points(6)
    th = np.linspace(0, 2 * np.pi, 17)[:-1]
    Px = np.concatenate([np.asarray(d.x, float), np.cos(th), [0.0]])
    Py = np.concatenate([np.asarray(d.y, float), np.sin(th), [0.0]])
    rays = o.trace_generic(np.zeros_like(Px), np.zeros_like(Px), Px.copy(), Py.copy(), w)
    return rays


def run_aplanatic(part, u):
    n, R = u['n'], u['R']                 # R < 0, vertex at z = 0
    g = ['ideal', n, 0.0]
    if u['direction'] == 'air->glass':
        n1, n2 = 1.0, n
        omat, smat = None, g
    else:
        n1, n2 = n, 1.0
        omat, smat = g, 'air'
    s_obj = R * (n1 + n2) / n1             # object position (negative: to the left)
    s_img = R * (n1 + n2) / n2             # virtual image position
    surfs = [S('sphere', R=R, mat=smat, t=10.0, stop=True)]
    sp = LZ.spec(surfs, obj=abs(s_obj), ap=('objectNA', u['na'] * n1), ftype='object_height', fields=(0.0,),
                 waves=((0.55, True),), obj_mat=omat, img=S('plane', mat=smat))
    o = LZ.build(sp)
    part.states += 1
    trace_fan(o, 0.55)
    part.evals += 1
    part.transitions += 1
    sg = o.surface_group
    P = np.stack([sg.x[1], sg.y[1], sg.z[1]], axis=1)
    D = np.stack([sg.L[1], sg.M[1], sg.N[1]], axis=1)
    fin = np.all(np.isfinite(P), axis=1) & np.all(np.isfinite(D), axis=1)
    c = f"family=aplanatic,{u['direction']}"
    if np.mean(fin) < 0.8:
        part.count('systems-with-missing-rays')
        return
    I = np.array([0.0, 0.0, s_img])
    O = np.array([0.0, 0.0, s_obj])
    v = I - P[fin]
    miss = np.linalg.norm(np.cross(v, D[fin]), axis=1)
    sc = abs(s_obj)
    if np.max(miss) > 1e-9 * sc:
        part.violation(PID, 'rays-meet-image-point', 'Optic.trace_generic', c, u, observed=float(np.max(miss)), expected=0.0,
                       tol=1e-9 * sc)
    opl = n1 * np.linalg.norm(P[fin] - O, axis=1) - n2 * np.linalg.norm(P[fin] - I, axis=1)
    if np.max(opl) - np.min(opl) > 1e-9 * sc:
        part.violation(PID, 'equal-optical-paths', 'Optic.trace_generic', c, u, observed=float(np.max(opl) - np.min(opl)),
                       expected=0.0, tol=1e-9 * sc)
    rec = n1 * np.linalg.norm(P[fin] - O, axis=1)
    if np.max(np.abs(np.asarray(sg.opd[1])[fin] - rec)) > 1e-9 * sc:
        part.violation(PID, 'recorded-path', 'Optic.trace_generic', c, u, observed=np.asarray(sg.opd[1])[fin][:3],
                       expected=rec[:3], tol=1e-9 * sc)
    part.outcome('aplanatic', n, R, u['na'], u['direction'])
    part.sample(u)


def run_unit(u):
    part = Part(u)
    if u['fam'] == 'aplanatic':
        run_aplanatic(part, u)
        return part
    sp, img, edits, scale = make(u)
    o = LZ.build(sp)
    part.states += 1
    w = u.get('wd', 0.55)
    if edits:
        trace_fan(o, w)                        # use the lens before the edit (history)
        part.transitions += 1
        for (k, conic) in edits:
            o.set_conic(conic, k)
            part.transitions += 1
    rays = trace_fan(o, w)
    part.evals += 1
    part.transitions += 1
    c = f"family={u['fam']},history={u.get('hist', 'direct')},medium={'air' if not u.get('med') else 'immersed'}" + \
        (',dispersive-glass' if u.get('glass') else '') + \
        (',exit-pupil-at-infinity' if u.get('stop_in_front_focal_plane') and u.get('stop_offset', 0.0) < 0.1 else '')
    x, y, opd = np.asarray(rays.x, float), np.asarray(rays.y, float), np.asarray(rays.opd, float)
    fin = np.isfinite(x) & np.isfinite(y) & np.isfinite(opd)
    if np.mean(fin) < 0.8:
        part.count('systems-with-missing-rays')
        part.violation(PID, 'rays-exist', 'Optic.trace_generic', c, u, observed=float(np.mean(fin)),
                       expected='rays inside the geometric limit exist')
        return part
    track = max(scale, 1.0)
    miss = np.hypot(x[fin] - img[0], y[fin] - img[1])
    if np.max(miss) > 1e-9 * track:
        part.violation(PID, 'rays-meet-image-point', 'Optic.trace_generic', c, u, observed=float(np.max(miss)), expected=0.0,
                       tol=1e-9 * track)
    zz = np.asarray(rays.z, float)[fin]
    if np.max(np.abs(zz - img[2])) > 1e-9 * track:
        part.violation(PID, 'image-surface-position', 'Optic.trace_generic', c, u, observed=float(zz[0]), expected=img[2],
                       tol=1e-9 * track)
    path = float(np.max(np.abs(opd[fin])))
    spread = float(np.max(opd[fin]) - np.min(opd[fin]))
    if spread > 1e-9 * max(path, 1.0):
        part.violation(PID, 'equal-optical-paths', 'Optic.trace_generic', c, u, observed=spread, expected=0.0,
                       tol=1e-9 * max(path, 1.0))
    # reported wavefront error and Strehl ratio
    from optiland.wavefront import Wavefront
    from optiland.psf import FFTPSF
    wf = Wavefront(o, fields=[(0.0, 0.0)], wavelengths=[w], num_rays=5, distribution='hexapolar')
    part.evals += 1
    part.transitions += 1
    d = np.asarray(wf.data[0][0][0], float)
    fd = np.isfinite(d)
    if not np.any(fd) or np.max(np.abs(d[fd])) > 1e-6:
        part.violation(PID, 'wavefront-error-zero', 'Wavefront', c, u, observed=float(np.nanmax(np.abs(d))) if np.any(fd) else 'nan',
                       expected=0.0, tol=1e-6)
    # every parity of (pupil sampling, padded grid): the peak sample is read at the centre of the grid
    for nr_, gs_ in ((32, 128), (32, 127), (33, 128), (33, 129), (11, 64), (21, 64), (31, 96)):   # 11, 21, 31: rim points with x^2 + y^2 == 1 + 2e-16
        psf = FFTPSF(o, (0.0, 0.0), w, num_rays=nr_, grid_size=gs_)
        part.evals += 1
        part.transitions += 1
        sr = float(psf.strehl_ratio())
        if not abs(sr - 1.0) <= 1e-9:
            part.violation(PID, 'strehl-one', 'FFTPSF.strehl_ratio', c + f",grid={'even' if gs_ % 2 == 0 else 'odd'}", dict(u, num_rays=nr_, grid_size=gs_),
                           observed=sr, expected=1.0, tol=1e-9)
    part.outcome(u['fam'], [v for k_, v in sorted(u.items()) if isinstance(v, (int, float))], spread)
    part.sample(u)
    return part


def nontrivial_guard(total, tier):
    if total.counters.get('systems-with-missing-rays', 0) > 0.1 * max(1, total.states):
        return 'more than 10 percent of the closed-form systems lose rays inside their geometric limit'
    return None
