"""C16 - ray intensity is never created and is removed exactly as specified.

Construction LTS over a surface alphabet whose symbols carry the loss mechanisms (radial apertures with and without
obscuration - one on a decentred, tilted surface -, absorbing media, simple coatings on refracting and reflecting
surfaces). Oracle: per-surface bookkeeping model I_k = I_{k-1} exp(-4 pi k d / lambda) [inside aperture, local frame]
(T | R), evaluated from the recorded points with the reference frames of vmc.ref.geom and the spec's loss data.
"""
import copy
import math

import numpy as np

from vmc import lens as LZ
from vmc.core import Part
from vmc.lens import S, V
from vmc.ref import geom, prescription

PID = 'C16'
TOL = 1e-9
META = dict(
    rule='unit = one lens word; evaluation = one traced fan compared surface by surface with the bookkeeping model; '
         'non-trivial = some ray loses intensity and some ray keeps some; distinct = rounded image intensities',
    exhaustive=True,
    bounds=dict(quick='words depth<=3 over 10 symbols (1110 lenses); 3 fields x 25 pupil points x 2 wavelengths; '
                      'SpotDiagram / Wavefront / Optic.trace intensity arrays on depth<=2',
                thorough='depth 4 over 6 symbols added, 4 numeric variants'),
    tolerances=dict(intensity='1e-9 relative', aperture_edge='rays within 1e-9 mm of an aperture edge are not judged'),
    assumptions=['reference frames of vmc.ref.geom', 'extinction of catalogue media from a fresh Material.k (C18)'],
)


def alphabet(v):
    p = V(v)
    g1 = ['ideal', p['n1'], 0.0]
    gabs = ['ideal', p['n1'], 2e-6]
    gabs2 = ['ideal', p['n2'], 1e-4]
    t = p['t']
    e = p['epd']
    return [
        S('sphere', R=p['R'], mat=g1, t=t[1]),
        S('sphere', R=-p['R'], mat='air', t=t[0], aperture=[0.45 * e]),
        S('plane', mat=gabs, t=t[1]),
        S('sphere', R=-p['R'], mat='air', t=t[0], coating=['simple', 0.9, 0.1]),
        S('sphere', R=-2.5 * p['R'], mat='mirror', t=t[2], coating=['simple', 0.3, 0.8]),
        S('sphere', R=p['R'], mat=g1, t=t[0], dy=p['dy'], rx=p['rx'], aperture=[0.4 * e, 0.12 * e]),
        S('plane', mat='air', t=t[1]),
        # ---- depth-limited rest
        S('asph', R=p['Ra'], k=0.0, coeffs=[1e-5, -2e-8], mat=gabs2, t=t[0], aperture=[0.47 * e]),
        S('plane', mat='air', t=t[0], coating=['simple', 0.0, 0.0]),
        S('sphere', R=p['R'], mat='N-BK7', t=t[1]),
    ]


def units(tier, variant):
    A = alphabet(variant)
    if tier == 'quick':
        ws = list(LZ.words(A, 1, 3))
    else:
        ws = list(LZ.words(A, 1, 3)) + list(LZ.words(A[:6], 4, 4))
    return [dict(word=list(w), variant=variant) for w in ws] + [dict(kind='polarizing-coating', word=[0, 1], variant=variant)]


def expected_intensity(rows, rec, w):
    """Bookkeeping model on the recorded points. Returns (expected (ns, nr) array, judged mask)."""
    X, Y, Z = (np.asarray(rec[k], dtype=float) for k in 'xyz')
    ns, nr = X.shape
    P = np.stack([X, Y, Z], axis=2)
    exp = np.ones((ns, nr))
    judged = np.ones((ns, nr), dtype=bool)
    ok = np.all(np.isfinite(P[0]), axis=1)
    for k in range(1, ns):
        row = rows[k]
        fin = np.all(np.isfinite(P[k]), axis=1) & ok
        d = np.linalg.norm(P[k] - P[k - 1], axis=1)
        I = exp[k - 1] * np.exp(-4 * math.pi * row['k_pre'] * d * 1e3 / w)
        edge = np.zeros(nr, dtype=bool)
        if row.get('aperture'):
            a = row['aperture']
            Pl = geom.to_local(row, np.where(fin[:, None], P[k], 0.0))
            r = np.hypot(Pl[:, 0], Pl[:, 1])
            rmax, rmin = a[0], (a[1] if len(a) > 1 else 0.0)
            inside = (r <= rmax) & (r >= rmin)
            edge = (np.abs(r - rmax) < 1e-9) | (np.abs(r - rmin) < 1e-9)
            I = np.where(inside, I, 0.0)
        c = row.get('coating')
        if c and c != 'fresnel':
            I = I * (c[2] if row['mirror'] else c[1])
        exp[k] = I
        ok = fin
        judged[k] = fin & judged[k - 1] & ~edge
    return exp, judged


def check_record(part, o, rows, w, site, cond_extra, det):
    sg = o.surface_group
    rec = dict(x=sg.x, y=sg.y, z=sg.z)
    got = np.asarray(sg.intensity, dtype=float)
    exp, judged = expected_intensity(rows, rec, w)
    part.evals += 1
    part.transitions += 1
    if got.shape != exp.shape:
        part.violation(PID, 'record-shape', site, cond_extra, det, observed=got.shape, expected=exp.shape)
        return None
    for k in range(got.shape[0]):
        j = judged[k]
        if not np.any(j):
            continue
        g, e = got[k][j], exp[k][j]
        row = rows[k]
        mech = ('aperture' if row.get('aperture') else '') + ('+coating' if row.get('coating') else '') + \
               ('+absorbing' if row['k_pre'] else '') + ('+mirror' if row['mirror'] else '')
        c = f"mechanism={mech or 'none'}" + (',decentred-tilted' if (row.get('rx') or row.get('y')) else '')
        if np.any(~np.isfinite(g)) or np.any(g < -TOL) or np.any(g > 1 + TOL):
            part.violation(PID, 'intensity-in-[0,1]', site, c, dict(det, surface=k), observed=float(g[np.argmax(np.abs(g - 0.5))]),
                           expected='[0, 1]')
        if k > 0:
            prev = got[k - 1][j]
            if np.any(g > prev * (1 + TOL) + 1e-300):
                i = int(np.argmax(g - prev))
                part.violation(PID, 'intensity-never-increases', site, c, dict(det, surface=k), observed=float(g[i]),
                               expected=f'<= {float(prev[i])}')
        err = np.abs(g - e)
        if np.any(err > TOL * np.maximum(1e-300, np.maximum(np.abs(e), 1e-30)) + 1e-15):
            i = int(np.argmax(err))
            part.violation(PID, 'intensity-bookkeeping', site, c, dict(det, surface=k, ray=int(np.where(j)[0][i])),
                           observed=float(g[i]), expected=float(e[i]), tol=TOL)
    return got, exp, judged


def run_polarizing(part, unit):
    """A Fresnel-coated singlet with an aperture, polarization state set: the intensity of the traced rays (rays.i) is what the
    image-surface record and the analyses report, and trace_generic agrees with trace for the same rays."""
    from optiland.rays import PolarizationState
    from optiland.analysis import SpotDiagram
    from optiland import distribution as DD
    p = V(unit['variant'])
    g = ['ideal', p['n1'], 0.0]
    surfs = [S('sphere', R=p['R'], mat=g, t=5.0, stop=True, coating='fresnel', aperture=[0.42 * p['epd']]),
             S('sphere', R=-p['R'], mat='air', t=40.0, coating='fresnel')]
    sp = LZ.spec(surfs, obj=LZ.INF, ap=('EPD', p['epd']), ftype='angle', fields=(0.0, 7.0, 10.0), waves=((0.5876, True),))
    w = 0.5876
    for sname, st in (('unpolarized', PolarizationState(is_polarized=False)),
                      ('linear', PolarizationState(is_polarized=True, Ex=1.0, Ey=0.0, phase_x=0.0, phase_y=0.0))):
        o = LZ.build(sp)
        o.set_polarization(st)
        part.states += 1
        det = dict(lens='fresnel-coated singlet with aperture', state=sname, variant=unit['variant'])
        d = DD.create_distribution('hexapolar')
        d.generate_points(3)
        for (hx, hy) in ((0.0, 0.0), (0.0, 1.0)):
            rays = o.trace(hx, hy, w, 3, 'hexapolar')
            ri = np.asarray(rays.i, float).copy()
            rec = np.asarray(o.surface_group.intensity[-1], float).copy()
            part.transitions += 1
            part.evals += 1
            if np.any(np.isfinite(ri)) and not (0.5 < np.nanmax(ri) < 1.0 - 1e-3):
                part.count('polarizing-coating-without-effect')
            if rec.shape != ri.shape or not np.allclose(np.nan_to_num(rec, nan=-1), np.nan_to_num(ri, nan=-1), rtol=0, atol=1e-12):
                part.violation(PID, 'image-surface-record-is-the-traced-intensity', 'Optic.trace', f'polarizing-coating,state={sname}', dict(det, field=[hx, hy]),
                               observed=rec[:5], expected=ri[:5], tol=1e-12)
            rg = np.asarray(o.trace_generic(np.full(len(d.x), hx), np.full(len(d.x), hy), np.asarray(d.x, float).copy(), np.asarray(d.y, float).copy(), w).i, float)
            part.transitions += 1
            if rg.shape != ri.shape or not np.allclose(np.nan_to_num(rg, nan=-1), np.nan_to_num(ri, nan=-1), rtol=0, atol=1e-12):
                part.violation(PID, 'trace_generic-intensity-equals-trace-intensity', 'Optic.trace_generic', f'polarizing-coating,state={sname}', dict(det, field=[hx, hy]),
                               observed=rg[:5], expected=ri[:5], tol=1e-12)
            o.trace(hx, hy, w, 3, 'hexapolar')
        sd = SpotDiagram(o, fields='all', wavelengths=[w], num_rings=3, distribution='hexapolar')
        part.transitions += 1
        for fi, (hx, hy) in enumerate(o.fields.get_field_coords()):
            ri = np.asarray(o.trace(hx, hy, w, 3, 'hexapolar').i, float)
            arr = np.asarray(sd.data[fi][0][2], float)
            if arr.shape != ri.shape or not np.allclose(np.nan_to_num(arr, nan=-1), np.nan_to_num(ri, nan=-1), rtol=0, atol=1e-12):
                part.violation(PID, 'analysis-intensity-is-traced-intensity', 'SpotDiagram', f'polarizing-coating,state={sname}', dict(det, field=fi),
                               observed=arr[:5], expected=ri[:5], tol=1e-12)
        part.outcome('polarizing', sname, ri[:4])
    part.sample(dict(kind='polarizing-coating'))


def run_unit(unit):
    part = Part(unit)
    if unit.get('kind') == 'polarizing-coating':
        run_polarizing(part, unit)
        return part
    v = unit['variant']
    p = V(v)
    A = alphabet(v)
    surfs = LZ.with_stop(LZ.fix_thickness_signs([A[i] for i in unit['word']]), 0)
    waves = ((0.4861, False), (0.5876, True))
    sp = LZ.spec(surfs, obj=LZ.INF, ap=('EPD', p['epd']), ftype='angle', fields=(0.0, 0.7 * 10.0, 10.0), waves=waves)
    o = LZ.build(sp)
    part.states += 1
    Px, Py = LZ.fan25()
    n = len(Px)
    det0 = dict(word=unit['word'], variant=v)
    lost = kept = 0
    for w in (0.4861, 0.5876):
        rows = prescription.rows(sp, lambda m, prev: LZ.ref_index(m, w, prev), lambda m, prev: LZ.ref_k(m, w, prev))
        Hy = np.repeat([0.0, 0.7, -1.0], n)
        rays = o.trace_generic(np.zeros_like(Hy), Hy, np.tile(Px, 3), np.tile(Py, 3), w)
        res = check_record(part, o, rows, w, 'Optic.trace_generic', '', dict(det0, wavelength=w))
        if res:
            got, exp, judged = res
            j = judged[-1]
            if not np.array_equal(np.asarray(rays.i)[j], got[-1][j]):
                part.violation(PID, 'returned-rays-intensity-is-image-record', 'Optic.trace_generic', 'returned rays',
                               dict(det0, wavelength=w), observed=np.asarray(rays.i)[j][:3], expected=got[-1][j][:3])
            lost += int(np.sum(exp[-1][j] < 1 - 1e-12))
            kept += int(np.sum(exp[-1][j] > 0))
            part.outcome(unit['word'], w, exp[-1][j][:8])
    if lost:
        part.count('fans-with-loss')
    if kept:
        part.count('fans-with-surviving-rays')
    if len(unit['word']) <= 2:
        w = 0.5876
        rows = prescription.rows(sp, lambda m, prev: LZ.ref_index(m, w, prev), lambda m, prev: LZ.ref_k(m, w, prev))
        # Optic.trace with named distributions
        for name, nr in (('hexapolar', 3), ('uniform', 6), ('ring', 8)):
            rays = o.trace(0.0, 0.7, w, nr, name)
            res = check_record(part, o, rows, w, 'Optic.trace', '', dict(det0, distribution=name))
            if res and not np.array_equal(np.isnan(rays.i), np.isnan(res[0][-1])):
                part.violation(PID, 'returned-rays-intensity-is-image-record', 'Optic.trace', 'returned rays',
                               dict(det0, distribution=name), observed=rays.i[:3], expected=res[0][-1][:3])
        # the same bookkeeping with a polarization state set on the lens (no polarizing coating in this alphabet: the
        # polarization factor is 1, so clipping, absorption and simple coatings must come out exactly as without it)
        from optiland.rays import PolarizationState
        pxs = np.array([0.0, 0.5, -0.9, 0.2, 1.0])
        pys = np.array([0.0, 0.3, 0.1, -0.95, 0.0])
        ref_t = np.asarray(o.trace(0.0, 0.7, w, 3, 'hexapolar').i, float).copy()
        ref_g = np.asarray(o.trace_generic(np.zeros(5), np.full(5, 0.7), pxs.copy(), pys.copy(), w).i, float).copy()
        for sname, st in (('unpolarized', PolarizationState(is_polarized=False)),
                          ('linear', PolarizationState(is_polarized=True, Ex=1.0, Ey=0.0, phase_x=0.0, phase_y=0.0))):
            o.set_polarization(st)
            got_t = np.asarray(o.trace(0.0, 0.7, w, 3, 'hexapolar').i, float).copy()
            rec_t = np.asarray(o.surface_group.intensity[-1], float).copy()
            got_g = np.asarray(o.trace_generic(np.zeros(5), np.full(5, 0.7), pxs.copy(), pys.copy(), w).i, float).copy()
            part.transitions += 2
            part.evals += 2
            for how, got, ref in (('Optic.trace', got_t, ref_t), ('Optic.trace (image-surface record)', rec_t, ref_t), ('Optic.trace_generic', got_g, ref_g)):
                okk = np.isfinite(ref)
                if got.shape != ref.shape or not np.array_equal(np.isfinite(got), okk) or (np.any(okk) and np.max(np.abs(got[okk] - ref[okk])) > 1e-12):
                    part.violation(PID, 'intensity-with-a-polarization-state-set', how, f'state={sname}', dict(det0, state=sname),
                                   observed=got[:5], expected=ref[:5], tol=1e-12)
        o.set_polarization('ignore')
        # analyses report the intensities of the rays they traced
        from optiland.analysis import SpotDiagram
        from optiland.wavefront import Wavefront
        sd = SpotDiagram(o, fields='all', wavelengths=[w], num_rings=3, distribution='hexapolar')
        wf = Wavefront(o, fields='all', wavelengths=[w], num_rays=3, distribution='hexapolar')
        part.transitions += 2
        for fi, (hx, hy) in enumerate(o.fields.get_field_coords()):
            o.trace(hx, hy, w, 3, 'hexapolar')
            ref_i = np.asarray(o.surface_group.intensity[-1], dtype=float).copy()
            check_record(part, o, rows, w, 'Optic.trace', '', dict(det0, field=fi))
            for nm, arr in (('SpotDiagram', sd.data[fi][0][2]), ('Wavefront', wf.data[fi][0][1])):
                arr = np.asarray(arr, dtype=float)
                if arr.shape != ref_i.shape or not np.array_equal(np.nan_to_num(arr, nan=-1), np.nan_to_num(ref_i, nan=-1)):
                    part.violation(PID, 'analysis-intensity-is-traced-intensity', nm, f'analysis={nm}', dict(det0, field=fi),
                                   observed=arr[:4], expected=ref_i[:4])
        # RayFan (two line fans per field, each with its own intensity array) and EncircledEnergy
        from optiland.analysis import RayFan, EncircledEnergy
        nf_ = 9
        rf = RayFan(o, fields='all', wavelengths=[w], num_points=nf_)
        ee = EncircledEnergy(o, fields='all', wavelength=w, num_rays=3, distribution='hexapolar', num_points=8)
        part.transitions += 2
        for fi, (hx, hy) in enumerate(o.fields.get_field_coords()):
            exp = {}
            for axis, dname in (('x', 'line_x'), ('y', 'line_y')):
                o.trace(hx, hy, w, nf_, dname)
                exp[axis] = np.asarray(o.surface_group.intensity[-1], dtype=float).copy()
            got = rf.data[f'{(hx, hy)}'][f'{w}']
            if not np.array_equal(exp['x'] == 0, exp['y'] == 0):
                part.count('ray-fans-clipped-differently-in-x-and-y')
            for axis in ('x', 'y'):
                arr = np.asarray(got[f'intensity_{axis}'], dtype=float)
                if arr.shape != exp[axis].shape or not np.array_equal(np.nan_to_num(arr, nan=-1), np.nan_to_num(exp[axis], nan=-1)):
                    part.violation(PID, 'analysis-intensity-is-traced-intensity', 'RayFan', 'analysis=RayFan', dict(det0, field=fi, fan=axis),
                                   observed=arr, expected=exp[axis])
            o.trace(hx, hy, w, 3, 'hexapolar')
            ref_i = np.asarray(o.surface_group.intensity[-1], dtype=float).copy()
            arr = np.asarray(ee.data[fi][0][2], dtype=float)
            if arr.shape != ref_i.shape or not np.array_equal(np.nan_to_num(arr, nan=-1), np.nan_to_num(ref_i, nan=-1)):
                part.violation(PID, 'analysis-intensity-is-traced-intensity', 'EncircledEnergy', 'analysis=EncircledEnergy', dict(det0, field=fi),
                               observed=arr[:4], expected=ref_i[:4])
    # ---- histories: edits of the apertures after construction (scale_system, aperture.scale, direct assignment)
    if len(unit['word']) <= 2 and any(s_.get('aperture') for s_ in surfs):
        w = 0.5876
        Hy = np.repeat([0.0, 0.7, -1.0], n)
        for f in (2.0, 0.5):
            for how in ('scale_system', 'aperture.scale', 'assign'):
                o2 = LZ.build(sp)
                o2.trace_generic(np.zeros_like(Hy), Hy, np.tile(Px, 3), np.tile(Py, 3), w)   # use before the edit
                sp2 = copy.deepcopy(sp)
                if how == 'scale_system':
                    o2.scale_system(f)
                    for s_ in sp2['surfs']:
                        s_['t'] = s_['t'] * f
                        if s_.get('aperture'):
                            s_['aperture'] = [a * f for a in s_['aperture']]
                else:
                    for k_, s_ in enumerate(sp2['surfs'], start=1):
                        if s_.get('aperture'):
                            ap_ = o2.surface_group.surfaces[k_].aperture
                            if how == 'aperture.scale':
                                ap_.scale(f)
                            else:
                                ap_.r_max = ap_.r_max * f
                                ap_.r_min = ap_.r_min * f
                            s_['aperture'] = [a * f for a in s_['aperture']]
                rows2 = prescription.rows(sp2, lambda m, prev: LZ.ref_index(m, w, prev), lambda m, prev: LZ.ref_k(m, w, prev))
                o2.trace_generic(np.zeros_like(Hy), Hy, np.tile(Px, 3), np.tile(Py, 3), w)
                part.states += 1
                check_record(part, o2, rows2, w, 'Optic.trace_generic', '', dict(det0, edit=how, factor=f))
    part.sample(dict(word=unit['word'], surfaces=[(s['shape'], s['mat'], s.get('aperture'), s.get('coating')) for s in surfs]))
    return part


def nontrivial_guard(total, tier):
    c = total.counters
    if c.get('fans-with-loss', 0) < 0.3 * total.states or c.get('fans-with-surviving-rays', 0) < 0.3 * total.states:
        return f"loss mechanisms hardly exercised: {c}"
    return None
