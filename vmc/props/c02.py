"""C02 - every traced ray obeys Snell / reflection on the prescribed surface.

Construction LTS: all words over a 14-symbol surface alphabet up to depth d (each word = a lens built by
add_surface in index order through the public API), plus the bundled sample designs. In every state one
observation sweep: trace_generic of a 25-point fan at 4 fields x 2 wavelengths (+ steep fields on short
words, + Optic.trace with every named distribution on d <= 2). Oracle: vmc.ref.laws on the recorded
per-surface points/directions/paths, with the prescription rows derived from the *spec* (not from the
library's objects) and indices from fresh material objects.
"""
import numpy as np

from vmc import lens as LZ
from vmc.core import Part
from vmc.lens import S, V
from vmc.ref import laws, prescription

PID = 'C02'
META = dict(
    rule='unit = one lens (word over the surface alphabet, or a sample design); evaluations = traced fans; '
         'an outcome is non-trivial when at least one ray reaches the image finite; distinct = rounded image '
         'coordinates of the fan differ',
    exhaustive=True,
    bounds=dict(quick='all words over 15 symbols, depth<=3 (3615 lenses) + 24 samples; 4 fields x 2 wavelengths x 25 pupil points',
                thorough='depth<=3 over 15 symbols + depth 4 over 8 symbols (4096) x 4 numeric variants + samples'),
    tolerances=dict(algebraic='1e-9 relative', newton_on_surface='surface tol (1e-6 mm default)'),
    assumptions=['frame convention global = o + Rx Ry Rz local as documented', 'catalogue indices trusted (C18)',
                 'object space is air'],
)


def alphabet(v):
    p = V(v)
    g1, g2 = ['ideal', p['n1'], 0.0], ['ideal', p['n2'], 0.0]
    t = p['t']
    return [
        S('sphere', R=p['R'], mat=g1, t=t[1]),
        S('sphere', R=-p['R'], mat='air', t=t[0]),
        S('plane', mat=g2, t=t[0]),
        S('sphere', R=p['Rs'], mat=g1, t=t[0]),
        S('conic', R=-p['Rc'], k=-1.0, mat='air', t=t[1]),
        S('conic', R=p['Rc'], k=-2.3, mat=g2, t=t[0]),
        S('conic', R=-p['Rc'], k=0.6, mat='air', t=t[1]),
        S('asph', R=p['Ra'], k=0.0, coeffs=[1e-5, -2e-8, 3e-11, -1e-14], mat=g1, t=t[0]),
        # ---- the remaining six are only combined to depth 2 in the quick tier
        S('asph', R=LZ.INF, k=0.0, coeffs=[2e-4, 0.0, 5e-10], mat='air', t=t[1]),
        S('poly', R=-p['Ra'], k=0.0, coeffs=[[0.0, 1e-3, 1e-4], [2e-3, 1e-4, 0.0]], mat=g2, t=t[0]),
        S('cheb', R=80.0, k=0.0, coeffs=[[0.0, 0.02, 0.01], [0.03, 0.005, 0.0]], norm=[200.0, 200.0], mat='N-BK7',
          t=t[0]),
        S('sphere', R=-2.5 * p['R'], mat='mirror', t=t[2]),
        S('sphere', R=p['R'], mat=g1, t=t[0], dy=p['dy'], rx=p['rx']),
        S('sphere', R=-p['R'], mat='air', t=t[1], dx=p['dx'], ry=p['ry']),
        # exit face tilted close to the critical angle of both glasses: part of every fan is totally reflected
        S('plane', mat='air', t=t[1], rx=0.66 + 0.02 * (v % 4)),
    ]


# 12-surface prescriptions mixing every shape, glasses, a mirror pair, decentres and tilts
LONG_WORDS = [
    [0, 1, 2, 6, 7, 1, 12, 13, 0, 4, 5, 1],
    [3, 1, 9, 8, 0, 1, 10, 6, 2, 1, 7, 4],
    [0, 1, 11, 11, 0, 1, 2, 4, 12, 13, 7, 8],
    [7, 8, 2, 1, 0, 14, 0, 1, 9, 6, 5, 4],
    [10, 1, 0, 1, 2, 6, 3, 1, 12, 1, 0, 8],
    [2, 6, 0, 4, 7, 1, 11, 0, 1, 11, 5, 1],
]


def units(tier, variant):
    A = alphabet(variant)
    out = []
    if tier == 'quick':
        # + depth 4 behind the steep sphere (symbol 3) ending on the even asphere: rays that start beyond the next surface
        ws = list(LZ.words(A, 1, 3)) + [w for w in LZ.words(A[:8], 4, 4) if w[2] == 3 and w[3] == 7]
    else:
        ws = list(LZ.words(A, 1, 3)) + list(LZ.words(A[:8], 4, 4))
    for w in ws:
        out.append(dict(kind='word', word=list(w), variant=variant))
    for w in LONG_WORDS:
        out.append(dict(kind='word', word=list(w), variant=variant))
    # steep rays on iteratively intersected surfaces (ray slope x surface slope near 1)
    for fld in (50.0, 60.0, 65.0, 70.0):
        out.append(dict(kind='steep-iterative', field=fld, variant=variant))
    if variant == 0 or tier == 'quick':
        for name in LZ.sample_lenses():
            out.append(dict(kind='sample', name=name, variant=variant))
    return out


def make_spec(unit):
    v = unit['variant']
    A = alphabet(v)
    surfs = LZ.fix_thickness_signs([A[i] for i in unit['word']])
    surfs = LZ.with_stop(surfs, 0)
    p = V(v)
    return LZ.spec(surfs, obj=LZ.INF, ap=('EPD', p['epd']), ftype='angle', fields=(0.0, 20.0),
                   waves=((0.4861, False), (0.5876, True)))


def index_of(w):
    return lambda m, prev: LZ.ref_index(m, w, prev)


def record(o):
    sg = o.surface_group
    return dict(x=sg.x, y=sg.y, z=sg.z, L=sg.L, M=sg.M, N=sg.N, opd=sg.opd)


def rows_from_optic(o, w):
    """Sample designs have no spec: rows are read from the built lens (shapes, frames, media)."""
    from optiland import geometries as G
    out = []
    for k, s in enumerate(o.surface_group.surfaces):
        g = s.geometry
        cs = g.cs
        if isinstance(g, G.EvenAsphere):
            shape = 'asph'
        elif isinstance(g, G.ChebyshevPolynomialGeometry):
            shape = 'cheb'
        elif isinstance(g, G.PolynomialGeometry):
            shape = 'poly'
        elif isinstance(g, G.Plane) or not np.isfinite(g.radius):
            shape = 'plane'
        else:
            shape = 'conic'
        row = dict(shape=shape, R=float(g.radius), k=float(getattr(g, 'k', 0.0)),
                   coeffs=(np.asarray(g.c).tolist() if hasattr(g, 'c') else None),
                   norm=[getattr(g, 'norm_x', 1), getattr(g, 'norm_y', 1)],
                   x=float(np.ravel(cs.x)[0]), y=float(np.ravel(cs.y)[0]), z=float(np.ravel(cs.z)[0]),
                   rx=float(cs.rx), ry=float(cs.ry), rz=float(cs.rz),
                   n_pre=float(np.ravel(s.material_pre.n(w))[0]) if s.material_pre is not None else 1.0,
                   n_post=float(np.ravel(s.material_post.n(w))[0]),
                   mirror=bool(s.is_reflective), stop=bool(s.is_stop), tol=getattr(g, 'tol', None))
        out.append(row)
    return out


def observe(part, o, rows_of_w, fields, waves, where, steep=None, nonfinite_cond=None):
    Px, Py = LZ.fan25()
    n = len(Px)
    for w in waves:
        rows = rows_of_w(w)
        Hy = np.repeat(np.array(fields, dtype=float), n)
        PX, PY = np.tile(Px, len(fields)), np.tile(Py, len(fields))
        try:
            o.trace_generic(np.zeros_like(Hy), Hy, PX.copy(), PY.copy(), w)
        except ValueError as exc:
            if 'Chebyshev input coordinates' in str(exc):
                part.count('chebyshev-domain-rejections')
                continue
            raise
        rec = record(o)
        part.transitions += 1
        part.evals += 1
        viols, st = laws.check_trace(rows, rec)
        for k2 in ('judged', 'finite', 'failed_expected', 'undecided', 'tir_expected'):
            part.count(k2, st[k2])
        img_ok = np.isfinite(rec['y'][-1])
        if np.any(img_ok):
            part.count('fans-reaching-image')
            part.outcome(rec['x'][-1][img_ok][:6], rec['y'][-1][img_ok][:6], rec['opd'][-1][img_ok][:3])
        for v in viols:
            cnd = cond_of(rows[v['k']], v)
            if nonfinite_cond and v['clause'] == 'exists-but-nonfinite':
                cnd = nonfinite_cond
            part.violation(PID, v['clause'], 'Optic.trace_generic', cnd,
                           dict(where=where, wavelength=w, surface=v['k'], ray=v['ray'],
                                Hy=float(Hy[v['ray']]), Px=float(PX[v['ray']]), Py=float(PY[v['ray']]),
                                nrays=v.get('nrays')),
                           observed=v['observed'], expected=v['expected'], tol=v['err'])


def cond_of(r, v):
    """Coarse, declared classification of a witness (part of the violation signature)."""
    c = f"shape={r['shape']},{'mirror' if r['mirror'] else 'refract'}"
    if r.get('rx') or r.get('ry'):
        c += ',tilted'
    if r.get('x') or r.get('y'):
        c += ',decentred'
    if r['shape'] == 'cheb' and list(r.get('norm') or [1, 1]) != [1, 1]:
        c += ',norm!=1'
    if 'quad_a' in v and abs(v['quad_a']) < 1e-2:
        c += ',quadratic-a~0'
    return c


DISTS = [('hexapolar', 3), ('uniform', 5), ('cross', 5), ('line_x', 4), ('line_y', 4), ('positive_line_x', 3),
         ('positive_line_y', 3), ('ring', 6)]


def run_unit(unit):
    part = Part(unit)
    if unit['kind'] == 'steep-iterative':
        # a refracting paraboloid written as an even asphere (no polynomial terms), stop on it, EPD of the order of its radius
        surfs = [S('asph', R=20.0, k=-1.0, coeffs=[0.0, 0.0], mat=['ideal', 1.5, 0.0], t=10.0, stop=True), S('plane', mat='air', t=30.0)]
        sp = LZ.spec(surfs, obj=LZ.INF, ap=('EPD', 24.0), ftype='angle', fields=(0.0, unit['field']), waves=((0.4861, False), (0.5876, True)))
        o = LZ.build(sp)
        part.states += 1
        observe(part, o, lambda w: prescription.rows(sp, index_of(w)), [1.0, -1.0, 0.5], [0.5876], 'steep-iterative',
                nonfinite_cond='iterative-surface,ray-slope-x-surface-slope-near-1')
        part.sample(dict(kind='steep-iterative', field=unit['field']))
        return part
    if unit['kind'] == 'word':
        sp = make_spec(unit)
        o = LZ.build(sp)
        part.states += 1
        part.transitions += len(sp['surfs']) + 2
        rows_of_w = lambda w: prescription.rows(sp, index_of(w))  # noqa
        observe(part, o, rows_of_w, [0.0, 0.35, -0.7, 1.0], [0.4861, 0.5876], 'fan')
        if len(unit['word']) <= 2:
            # steep incidence: 35 degree field
            sp2 = dict(sp, fields=[[0.0, 0.0, 0.0], [35.0, 0.0, 0.0]])
            o2 = LZ.build(sp2)
            observe(part, o2, rows_of_w, [1.0, -0.8], [0.5876], 'steep')
            # Optic.trace with every named distribution
            for name, nr in DISTS:
                try:
                    o.trace(0.0, 0.7, 0.5876, nr, name)
                except ValueError as exc:
                    if 'Chebyshev input coordinates' in str(exc):
                        continue
                    raise
                rec = record(o)
                part.transitions += 1
                part.evals += 1
                viols, st = laws.check_trace(rows_of_w(0.5876), rec)
                for v in viols:
                    part.violation(PID, v['clause'], 'Optic.trace', cond_of(rows_of_w(0.5876)[v['k']], v),
                                   dict(surface=v['k'], ray=v['ray'], num_rays=nr, distribution=name), observed=v['observed'],
                                   expected=v['expected'], tol=v['err'])
            # history: replace the first glass through set_index on the *same* lens object and trace again (paths and refraction must
            # follow the new medium)
            gi = next((i for i, s_ in enumerate(sp['surfs']) if s_['mat'] not in ('air', 'mirror')), None)
            if gi is not None:
                import copy as _copy
                sp3 = _copy.deepcopy(sp)
                sp3['surfs'][gi]['mat'] = ['ideal', 1.66, 0.0]
                o.set_index(1.66, gi + 1)
                part.transitions += 1
                observe(part, o, lambda w: prescription.rows(sp3, index_of(w)), [0.0, 1.0], [0.5876], 'after-set_index')
            # history: a surface built centred and untilted is tilted and decentred AFTERWARDS through the library's variable
            # handles (as an optimiser or a tolerancing run does), on the same lens object; the trace must follow the new frame
            ci = next((i for i, s_ in enumerate(sp['surfs']) if not any(s_.get(q) for q in ('dx', 'dy', 'rx', 'ry'))
                       and s_['shape'] in ('sphere', 'conic', 'plane')), None)
            if ci is not None:
                import copy as _copy
                from optiland.optimization.variable.tilt import TiltVariable
                from optiland.optimization.variable.decenter import DecenterVariable
                base_sp = sp3 if gi is not None else sp
                sp4 = _copy.deepcopy(base_sp)
                sp4['surfs'][ci].update(rx=0.03, ry=-0.02, dx=0.15, dy=-0.1)
                TiltVariable(o, ci + 1, 'x', apply_scaling=False).update_value(0.03)
                TiltVariable(o, ci + 1, 'y', apply_scaling=False).update_value(-0.02)
                DecenterVariable(o, ci + 1, 'x', apply_scaling=False).update_value(0.15)
                DecenterVariable(o, ci + 1, 'y', apply_scaling=False).update_value(-0.1)
                part.transitions += 4
                part.count('frames-edited-after-construction')
                observe(part, o, lambda w: prescription.rows(sp4, index_of(w)), [0.0, 1.0], [0.5876], 'after-tilt-decentre-variables')
        part.sample(dict(word=unit['word'], surfaces=[s['shape'] + ':' + str(s['mat']) for s in sp['surfs']]))
    else:
        o = LZ.sample_lenses()[unit['name']]()
        part.states += 1
        waves = [wv.value for wv in o.wavelengths.wavelengths]
        waves = sorted(set([waves[0], o.primary_wavelength, waves[-1]]))
        try:
            observe(part, o, lambda w: rows_from_optic(o, w), [0.0, 0.5, -1.0, 1.0], waves, 'sample')
        except ValueError as exc:
            # a bundled sample design that cannot be ray-traced at all (catalogue glass without an extinction table:
            # MaterialFile.k raises inside the propagation step)
            if 'No extinction coefficient data' not in str(exc):
                raise
            part.count('sample-untraceable-no-k-table')
            part.violation(PID, 'bundled-sample-design-traces', 'RealRays.propagate', 'catalogue-medium-without-extinction-data',
                           dict(sample=unit['name']), observed=str(exc)[:120], expected='the 24 bundled sample designs can be traced')
        part.sample(dict(sample=unit['name']))
    return part


def nontrivial_guard(total, tier):
    c = total.counters
    if c.get('finite', 0) < 0.5 * max(1, c.get('judged', 0)):
        return f"only {c.get('finite', 0)} of {c.get('judged', 0)} judged ray-surface records are finite"
    if c.get('tir_expected', 0) < 100:
        return f"only {c.get('tir_expected', 0)} ray-surface events with total internal reflection were exercised"
    if c.get('fans-reaching-image', 0) < 0.3 * max(1, total.evals):
        return 'fewer than 30% of fans reach the image'
    return None
