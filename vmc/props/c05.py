"""C05 - real rays converge to the paraxial prediction as aperture and field vanish.

Construction LTS (axially symmetric alphabet x every stop position x {infinite, finite} object) plus one edit
transition (set_index on the first glass after a first observation). In every state two geometric sequences of real
rays (marginal-type: Hy=0, Py=eps; chief-type: Hy=eps, P=0; eps = 0.4 * 2^-k, k=0..7) are traced and, at every
surface, height/eps and tangent/eps are compared with the reference paraxial rays of vmc.ref.abcd. Decision by the
*observed order* of the discrepancy (>= 1.8), never by an absolute threshold.
"""
import math

import numpy as np

from vmc import lens as LZ
from vmc.core import Part
from vmc.lens import S, V
from vmc.ref import abcd, prescription
from vmc.props import c04

PID = 'C05'
META = dict(
    rule='unit = lens word x stop position; evaluation = one (state, ray type) convergence study over 8 values of eps at '
         'every surface; non-trivial = discrepancy above the noise floor at the largest eps; distinct = rounded limits',
    exhaustive=True,
    bounds=dict(quick='words depth<=2 over 10 symbols + depth 3 over 6, every stop, objects {inf, finite}; eps = 0.4 * 2^-k, k = 0..7; '
                      'set_index edit + re-observation on every word with a glass in front of the stop',
                thorough='depth<=3 over 10 symbols + depth 4 over 5, 4 numeric variants'),
    tolerances=dict(order='fitted order of |real/eps - paraxial| in eps >= 1.8 on the points above the floor 1e-11 x scale; '
                          'smallest-eps discrepancy <= 4 x (eps_min/eps_max)^1.8 x largest'),
    assumptions=['paraxial reference = vmc.ref.abcd', 'field scale factor tan(eps*theta)/tan(theta) for angular fields'],
)

EPS = [0.4 * 2.0 ** (-k) for k in range(8)]


def units(tier, variant):
    A = c04.alphabet(variant)
    if tier == 'quick':
        ws = list(LZ.words(A, 1, 2)) + list(LZ.words(A[:6], 3, 3))
    else:
        ws = list(LZ.words(A, 1, 3)) + list(LZ.words(A[:5], 4, 4))
    out = []
    for w in ws:
        for s in range(len(w)):
            out.append(dict(word=list(w), stop=s, variant=variant))
    return out


def fitted_order(eps, err, floor):
    eps, err = np.asarray(eps), np.asarray(err)
    ok = np.isfinite(err) & (err > floor)
    if np.sum(ok) < 3:
        return None
    # points must be a leading run (largest eps first); stop at the first point under the floor
    idx = np.where(ok)[0]
    run = [idx[0]]
    for i in idx[1:]:
        if i == run[-1] + 1:
            run.append(i)
        else:
            break
    if len(run) < 3 or run[0] != 0:
        return None
    # the statement is about eps -> 0: fit the tail of the run (the four smallest eps above the rounding floor); the largest
    # eps values can still be outside the asymptotic regime on steep lenses
    run = run[-4:]
    p = np.polyfit(np.log(eps[run]), np.log(err[run]), 1)
    return float(p[0])


def within_envelope(err, floor):
    """O(eps^2) as a verdict: every error from the fourth-largest eps on lies under the eps^1.8 extrapolation (x4) of the worst
    of the three largest eps, down to the rounding floor. A first-order term C eps leaves the envelope by a factor
    (eps_j/eps_i)^0.8 / 4 (x4 at the smallest eps), a constant offset by much more; sequences that pass through a sign change of
    the error at large eps (irregular but tiny) stay inside. The fitted order is reported with a violation, not judged."""
    err = np.asarray(err, float)
    for i in range(3, len(EPS)):
        bound = 4.0 * max(err[j] * (EPS[i] / EPS[j]) ** 1.8 for j in range(3)) + floor
        if not (err[i] <= bound):
            return False
    return True


def study(part, o, rows, kind, ftype, mf, obj, clause_prefix, cond, det):
    """kind: 'marginal' or 'chief'. Returns nothing; records violations."""
    w = 0.5876
    ap = (o.aperture.ap_type, o.aperture.value)
    if kind == 'marginal':
        ys, us, _ = abcd.marginal(rows, ap)
    else:
        ys, us = abcd.chief(rows, ftype, mf)
        if ftype == 'object_height':
            # real rays of field Hy start at the object point +Hy*h; the library's paraxial chief ray is drawn for the
            # point -h (convention of Paraxial._get_object_position): the paraxial ray of the requested point is its negative
            ys, us = [-a for a in ys], [-a for a in us]
    ys, us = np.array(ys), np.array(us)
    # the limit the property names is the ray returned by the library: it has to be this reference ray
    yl, ul = (o.paraxial.marginal_ray() if kind == 'marginal' else o.paraxial.chief_ray())
    yl = np.array([float(np.ravel(v)[0]) for v in yl])[1:]
    ul = np.array([float(np.ravel(v)[0]) for v in ul])[1:]
    if kind == 'chief' and ftype == 'object_height':
        yl, ul = -yl, -ul
    part.transitions += 1
    if yl.shape == ys.shape and np.all(np.isfinite(ys)):
        sy, su = max(1.0, float(np.max(np.abs(ys)))), max(1e-3, float(np.max(np.abs(us))))
        if np.max(np.abs(yl - ys)) > 1e-8 * sy or np.max(np.abs(ul[:-1] - us[:-1])) > 1e-8 * su:
            k_ = int(np.argmax(np.abs(yl - ys)))
            part.violation(PID, f'{clause_prefix}{kind}-limit-is-the-library-paraxial-ray', f'Paraxial.{kind}_ray', cond, dict(det, surface=k_ + 1),
                           observed=dict(y=yl.tolist(), u=ul.tolist()), expected=dict(y=ys.tolist(), u=us.tolist()), tol=1e-8)
    ns = len(rows)
    Y = np.full((len(EPS), ns - 1), np.nan)
    U = np.full((len(EPS), ns - 1), np.nan)
    ZF = np.full(len(EPS), np.nan)
    for i, e in enumerate(EPS):
        if kind == 'marginal':
            o.trace_generic(0.0, 0.0, 0.0, e, w)
            sf = e
        else:
            o.trace_generic(0.0, e, 0.0, 0.0, w)
            sf = (math.tan(math.radians(e * mf)) / math.tan(math.radians(mf))) if ftype == 'angle' else e
        part.transitions += 1
        sg = o.surface_group
        y = np.asarray(sg.y, float)[1:, 0]
        M = np.asarray(sg.M, float)[1:, 0]
        N = np.asarray(sg.N, float)[1:, 0]
        Y[i] = y / sf
        with np.errstate(all='ignore'):
            U[i] = (M / N) / sf
            # axis crossing behind the last optical surface (record of that surface, not of the image surface,
            # which refracts into its own medium)
            ZF[i] = float(np.asarray(sg.z, float)[-2, 0]) - y[-2] / (M[-2] / N[-2])
    part.evals += 1
    scale_y = max(1.0, float(np.max(np.abs(ys))))
    scale_u = max(1e-3, float(np.max(np.abs(us))))
    nontrivial = False
    for k in range(ns - 1):
        for name, obs, ref, sc in (('height', Y[:, k], ys[k], scale_y), ('tangent', U[:, k], us[k], scale_u)):
            if k == ns - 2 and name == 'tangent':
                continue          # direction behind the image surface is not part of the statement
            err = np.abs(obs - ref)
            floor = 1e-11 * sc / EPS[-1] * 0 + 1e-10 * sc
            if not np.all(np.isfinite(obs)):
                part.count('studies-with-missing-rays')
                continue
            if err[0] > floor:
                nontrivial = True
            order = fitted_order(EPS, err, floor)
            bad = not within_envelope(err, floor)
            part.count('cmp:' + clause_prefix + kind)
            if bad:
                part.violation(PID, f'{clause_prefix}{kind}-{name}-converges-quadratically', 'Optic.trace_generic', cond,
                               dict(det, surface=k + 1, paraxial=float(ref)), observed=dict(order=order, err=err.tolist()),
                               expected='|real/eps - paraxial| = O(eps^2)', tol=1.8)
    if kind == 'marginal':
        # paraxial focus of *this* marginal ray: crossing of the reference ray behind the last optical surface
        if abs(us[-2]) > 1e-9:
            zf_ref = rows[-2]['z'] - ys[-2] / us[-2]
            err = np.abs(ZF - zf_ref)
            sc = max(1.0, abs(zf_ref))
            floor = 1e-9 * sc
            if np.all(np.isfinite(ZF)) and abs(zf_ref) < 1e5:
                order = fitted_order(EPS, err, floor)
                part.count('cmp:' + clause_prefix + 'focus')
                if not within_envelope(err, floor):
                    part.violation(PID, f'{clause_prefix}axial-focus-tends-to-paraxial-focus', 'Optic.trace_generic', cond,
                                   dict(det, paraxial_focus=zf_ref), observed=dict(order=order, err=err.tolist()),
                                   expected='O(eps^2)', tol=1.8)
    if nontrivial:
        part.count('nontrivial-studies')
    part.outcome(kind, det.get('word'), det.get('stop'), det.get('obj'), float(Y[-1, -1]), float(U[-1, 0]))


def run_unit(unit):
    part = Part(unit)
    v = unit['variant']
    p = V(v)
    A = c04.alphabet(v)
    surfs = LZ.with_stop(LZ.fix_thickness_signs([A[i] for i in unit['word']]), unit['stop'])
    epd_ = ('EPD', p['epd'])
    for obj, ft, mf, apx in ((LZ.INF, 'angle', p['ang'], epd_), (p['od'][0], 'object_height', p['h'], epd_), (p['od'][0], 'angle', p['ang'], epd_),
                             (p['od'][0], 'object_height', p['h'], ('objectNA', p['na'])), (LZ.INF, 'angle', p['ang'], ('imageFNO', p['fno']))):
        sp = LZ.spec(surfs, obj=obj, ap=apx, ftype=ft, fields=(0.0, mf), waves=((0.5876, True),))
        o = LZ.build(sp)
        part.states += 1
        rows = prescription.rows(sp, lambda m, prev: LZ.ref_index(m, 0.5876, prev))
        epl = abcd.EPL(rows)
        if abcd.pupil_degenerate(rows):
            part.count('skipped-telecentric-pupil')
            continue
        if apx[0] == 'imageFNO' and abs(abcd.cardinal(rows)['C']) < 1e-9:
            part.count('skipped-afocal')
            continue
        cond = f"object={'infinite' if math.isinf(obj) else 'finite'},field={ft},stop={c04.stop_class(rows)},mirrors={c04.mirror_class(rows)}" + \
               ('' if apx[0] == 'EPD' else f',aperture={apx[0]}')
        det = dict(word=unit['word'], stop=unit['stop'], variant=v, obj=obj, ftype=ft, aperture=list(apx))
        study(part, o, rows, 'marginal', ft, mf, obj, '', cond, det)
        study(part, o, rows, 'chief', ft, mf, obj, '', cond, det)
        # ---- history: change the index of the first glass, observe again on the same lens object -----------------
        gi = next((i for i, s_ in enumerate(sp['surfs']) if s_['mat'] not in ('air', 'mirror')), None)
        # a mirror directly behind the edited glass: which medium follows the mirror after set_index is a question of
        # prescription consistency (C01 decides it, see known findings), not of real-vs-paraxial convergence
        if gi is not None and gi + 1 < len(sp['surfs']) and sp['surfs'][gi + 1]['mat'] == 'mirror':
            part.count('set_index-edits-skipped-mirror-follows')
            gi = None
        if gi is not None:
            sp2 = LZ.spec(surfs, obj=obj, ap=apx, ftype=ft, fields=(0.0, mf), waves=((0.5876, True),))
            sp2['surfs'][gi]['mat'] = ['ideal', 1.80, 0.0]
            o.set_index(1.80, gi + 1)
            part.transitions += 1
            rows2 = prescription.rows(sp2, lambda m, prev: LZ.ref_index(m, 0.5876, prev))
            epl2 = abcd.EPL(rows2)
            if not abcd.pupil_degenerate(rows2):
                det2 = dict(det, after='set_index(1.80)', surface_edited=gi + 1)
                study(part, o, rows2, 'chief', ft, mf, obj, 'after-set_index-', cond, det2)
                study(part, o, rows2, 'marginal', ft, mf, obj, 'after-set_index-', cond, det2)
        # ---- history: change the radius of the first curved surface (every shape, the even asphere included) on the same lens
        #      object, observe again: real rays and the paraxial model must both follow the radius now in force
        ri = next((i for i, s_ in enumerate(sp['surfs']) if math.isfinite(s_.get('R', LZ.INF)) and s_['R'] != 0), None)
        if ri is not None and apx[0] == 'EPD':
            import copy as _copy
            sp3 = _copy.deepcopy(sp2 if gi is not None else sp)
            newR = 1.3 * sp3['surfs'][ri]['R']
            sp3['surfs'][ri]['R'] = newR
            o.set_radius(newR, ri + 1)
            part.transitions += 1
            rows3 = prescription.rows(sp3, lambda m, prev: LZ.ref_index(m, 0.5876, prev))
            if not abcd.pupil_degenerate(rows3):
                det3 = dict(det, after='set_radius(1.3 R)', surface_edited=ri + 1, shape=sp3['surfs'][ri]['shape'])
                part.count('set_radius-histories')
                study(part, o, rows3, 'marginal', ft, mf, obj, 'after-set_radius-', cond, det3)
                study(part, o, rows3, 'chief', ft, mf, obj, 'after-set_radius-', cond, det3)
    part.sample(dict(word=unit['word'], stop=unit['stop']))
    return part


def nontrivial_guard(total, tier):
    if total.counters.get('nontrivial-studies', 0) < 0.5 * max(1, total.evals):
        return f"only {total.counters.get('nontrivial-studies', 0)} of {total.evals} convergence studies are above the noise floor"
    return None
