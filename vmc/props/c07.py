"""C07 - results transform correctly under symmetries and re-descriptions of the lens.

States: lens words over a symmetric alphabet x {infinite/angle, finite/height} x {no vignetting, vignetting factors}.
Transitions: *transformations* of the description (tilt of a spherical surface about its centre of curvature, dummy
plane inside any gap, manual scaling of every length, the library's scale_system, wavelength change on
dispersion-free media) and their depth-2 compositions, plus the coordinate mirrors applied as observation variants.
Differential oracle: exact relation between the traced records / paraxial focal length / Seidel sums of the original
and of the transformed description.
"""
import copy
import math

import numpy as np

from vmc import lens as LZ
from vmc.core import Part
from vmc.lens import S, V

PID = 'C07'
TOL = 1e-9
META = dict(
    rule='unit = lens word x configuration; evaluation = one (transformation word, observation) comparison; non-trivial = '
         'rays reach the image finite; distinct = rounded image records',
    exhaustive=True,
    bounds=dict(quick='words depth<=2 over 8 symbols x 4 configurations; every admissible single transformation (tilt '
                      '{+-0.05,+-0.3} x/y on every sphere k>=2, dummy in every gap, scale {0.01,0.5,3,100}, scale_system same) '
                      'and all ordered pairs from a 6-element menu; 3 coordinate mirrors on every lens',
                thorough='depth<=3, 4 numeric variants'),
    tolerances=dict(relation='1e-9 relative (lengths scaled by s)'),
    assumptions=['frame convention of vmc.ref.geom for the tilt-about-centre construction'],
)


def alphabet(v):
    p = V(v)
    g1, g2 = ['ideal', p['n1'], 0.0], ['ideal', p['n2'], 0.0]
    t = p['t']
    return [
        S('sphere', R=p['R'], mat=g1, t=t[1]),
        S('sphere', R=-p['R'], mat='air', t=t[2]),
        S('plane', mat=g2, t=t[0]),
        S('conic', R=-p['Rc'], k=-0.6, mat='air', t=t[1]),
        S('sphere', R=-2.5 * p['R'], mat='mirror', t=t[2]),
        S('sphere', R=-1.3 * p['R'], mat=g2, t=t[0]),
        S('plane', mat='air', t=t[1]),
        S('sphere', R=p['Rs'], mat=g1, t=t[0]),
    ]


def units(tier, variant):
    A = alphabet(variant)
    depth = 2 if tier == 'quick' else 3
    out = []
    for w in LZ.words(A, 1, depth):
        for cfg in ('inf', 'finite', 'inf-vig', 'finite-angle'):
            out.append(dict(word=list(w), cfg=cfg, variant=variant))
            if len(w) > 1 and cfg != 'inf-vig':
                # stop on the last surface: powered surfaces in front of the stop, entrance pupil away from the first vertex
                out.append(dict(word=list(w), cfg=cfg, variant=variant, stop=len(w) - 1))
    return out


def base_spec(unit):
    v = unit['variant']
    p = V(v)
    A = alphabet(v)
    surfs = LZ.with_stop(LZ.fix_thickness_signs([A[i] for i in unit['word']]), unit.get('stop', 0))
    if unit['cfg'] == 'finite':
        return LZ.spec(surfs, obj=p['od'][0], ap=('EPD', p['epd']), ftype='object_height', fields=(0.0, 0.6 * p['h'], p['h']),
                       waves=((0.5876, True),))
    if unit['cfg'] == 'finite-angle':
        return LZ.spec(surfs, obj=p['od'][0], ap=('EPD', p['epd']), ftype='angle', fields=(0.0, 0.6 * p['ang'], p['ang']),
                       waves=((0.5876, True),))
    if unit['cfg'] == 'inf-vig':
        return LZ.spec(surfs, obj=LZ.INF, ap=('EPD', p['epd']), ftype='angle',
                       fields=([0.0, 0.0, 0.0], [0.6 * p['ang'], 0.1, 0.05], [p['ang'], 0.3, 0.2]), waves=((0.5876, True),))
    return LZ.spec(surfs, obj=LZ.INF, ap=('EPD', p['epd']), ftype='angle', fields=(0.0, 0.6 * p['ang'], p['ang']),
                   waves=((0.5876, True),))


# ---------------------------------------------------------------------------------------------------------
# transformations: spec -> (spec', surface map original index -> new index (1-based incl. image), scale s)
# ---------------------------------------------------------------------------------------------------------

def ident_map(sp):
    return {k: k for k in range(0, len(sp['surfs']) + 2)}


def t_tilt(sp, k, th, axis):
    """tilt optical surface k (0-based in surfs, k >= 1, spherical) about its own centre of curvature"""
    sp2 = copy.deepcopy(sp)
    s = sp2['surfs'][k]
    R = s['R']
    dz = R * (1 - math.cos(th))
    if axis == 'x':
        s['rx'] = s.get('rx', 0.0) + th
        s['dy'] = s.get('dy', 0.0) + R * math.sin(th)
    else:
        s['ry'] = s.get('ry', 0.0) + th
        s['dx'] = s.get('dx', 0.0) - R * math.sin(th)
    sp2['surfs'][k - 1]['t'] = sp2['surfs'][k - 1]['t'] + dz
    s['t'] = s['t'] - dz
    return sp2, ident_map(sp), 1.0


def medium_after(sp, j):
    """material spec of the medium in gap j (after optical surface j, 0-based)"""
    m = sp.get('obj_mat') or 'air'
    for s in sp['surfs'][:j + 1]:
        if s['mat'] != 'mirror':
            m = s['mat']
    return m


def t_dummy(sp, j, frac=0.4):
    """insert a plane between equal media inside gap j (after optical surface j)"""
    sp2 = copy.deepcopy(sp)
    t = sp2['surfs'][j]['t']
    sp2['surfs'][j]['t'] = frac * t
    sp2['surfs'].insert(j + 1, S('plane', mat=medium_after(sp, j), t=(1 - frac) * t))
    mp = {}
    for k in range(0, len(sp['surfs']) + 2):
        mp[k] = k if k <= j + 1 else k + 1
    return sp2, mp, 1.0


def t_objdummy(sp, frac):
    """finite object: insert a plane (air to air) in the object gap; the old first vertex moves to z = (1 - frac) * distance"""
    sp2 = copy.deepcopy(sp)
    d = sp['obj']
    sp2['obj'] = frac * d
    sp2['surfs'].insert(0, S('plane', mat=sp.get('obj_mat') or 'air', t=(1 - frac) * d))
    mp = {k: (k if k == 0 else k + 1) for k in range(0, len(sp['surfs']) + 2)}
    return sp2, mp, 1.0


def t_scale(sp, s):
    sp2 = copy.deepcopy(sp)
    for q in sp2['surfs']:
        if math.isfinite(q['R']):
            q['R'] = q['R'] * s
        q['t'] = q['t'] * s
        for key in ('dx', 'dy'):
            if q.get(key):
                q[key] = q[key] * s
        if q.get('aperture'):
            q['aperture'] = [a * s for a in q['aperture']]
    if math.isfinite(sp2['obj']):
        sp2['obj'] = sp2['obj'] * s
    if sp2['ap'][0] == 'EPD':
        sp2['ap'][1] = sp2['ap'][1] * s
    if sp2['ftype'] == 'object_height':
        sp2['fields'] = [[f[0] * s] + list(f[1:]) for f in sp2['fields']]
    return sp2, ident_map(sp), s


def record(o, Hy, Px, Py, w):
    o.trace_generic(np.zeros_like(Hy), Hy.copy(), Px.copy(), Py.copy(), w)
    sg = o.surface_group
    return dict(x=sg.x.copy(), y=sg.y.copy(), z=sg.z.copy(), L=sg.L.copy(), M=sg.M.copy(), N=sg.N.copy(), opd=sg.opd.copy())


def compare_records(part, clause, site, cond, det, ra, rb, mp, s, skip=(), zoff=0.0):
    """rb (transformed) vs ra (original): lengths x s, cosines equal, on corresponding surfaces (k >= 1)."""
    worst = 0.0
    where = None
    # size of the whole (scaled) system: a coordinate that is ~0 on one surface (an image folded back to z = 0 by two mirrors)
    # still carries the rounding error of the vertices it was computed from - 1e-16 of the system size. Only matters for the
    # unit change by 1e8 (for ordinary lenses 1e-4 x size stays below the floor of 1)
    size = 0.0
    for key in ('x', 'y', 'z'):
        arr = np.asarray(ra[key][1:], float) * s
        if np.any(np.isfinite(arr)):
            size = max(size, float(np.max(np.abs(arr[np.isfinite(arr)]))))
    floor = max(1.0, 1e-4 * size)
    for ka, kb in mp.items():
        if ka == 0 or ka in skip:
            continue
        if ka >= ra['x'].shape[0] or kb >= rb['x'].shape[0]:
            part.violation(PID, clause, site, cond, det, observed=[ra['x'].shape, rb['x'].shape], expected='same surface count')
            return False
        for key, fac in (('x', s), ('y', s), ('z', s), ('L', 1.0), ('M', 1.0), ('N', 1.0), ('opd', s)):
            a, b = ra[key][ka] * fac + (zoff if key == 'z' else 0.0), rb[key][kb]
            if key == 'opd':
                # the accumulated path starts at a launch plane whose position is an arbitrary choice of the ray
                # generator (it moves when any vertex moves); only path *differences* within one field are physical:
                # compare relative to the first valid ray of each field block
                a, b = a.copy(), b.copy()
                nb = len(a) // 3
                for blk in range(3):
                    sl = slice(blk * nb, (blk + 1) * nb)
                    okk = np.isfinite(a[sl]) & np.isfinite(b[sl])
                    if np.any(okk):
                        i0 = int(np.argmax(okk))
                        a[sl] = a[sl] - a[sl][i0]
                        b[sl] = b[sl] - b[sl][i0]
            fa, fb = np.isfinite(a), np.isfinite(b)
            if not np.array_equal(fa, fb):
                part.violation(PID, clause, site, cond, dict(det, surface=ka, quantity=key), observed='finite pattern differs',
                               expected='same rays valid')
                return False
            if np.any(fa):
                sc = max(floor, float(np.max(np.abs(a[fa])))) if fac != 1.0 or key in 'xyz' else 1.0
                e = float(np.max(np.abs(a[fa] - b[fa]))) / sc
                if e > worst:
                    worst, where = e, (ka, key, float(a[fa][0]), float(b[fa][0]))
    part.count('cmp:' + clause)
    if worst > TOL:
        part.violation(PID, clause, site, cond, dict(det, surface=where[0], quantity=where[1]), observed=where[3],
                       expected=where[2], tol=worst)
        return False
    return True


def paraxial_seidel(o):
    try:
        f2 = float(o.paraxial.f2())
        S_ = np.asarray(o.aberrations.seidels(), dtype=float).ravel()
        return f2, S_
    except Exception:
        return None, None


def run_unit(unit):
    part = Part(unit)
    sp = base_spec(unit)
    v = unit['variant']
    o = LZ.build(sp)
    part.states += 1
    Px, Py = LZ.fan25()
    n = len(Px)
    HY = np.repeat([0.0, 0.6, -1.0], n)
    PX, PY = np.tile(Px, 3), np.tile(Py, 3)
    w = 0.5876
    r0 = record(o, HY, PX, PY, w)
    part.transitions += 1
    det0 = dict(word=unit['word'], cfg=unit['cfg'], variant=v, stop=unit.get('stop', 0))
    cfgc = f"config={unit['cfg']}" + (',stop=last' if unit.get('stop', 0) else '')
    if np.any(np.isfinite(r0['y'][-1])):
        part.count('lenses-with-image-rays')
        part.outcome(unit['word'], unit['cfg'], r0['y'][-1][:6])

    # ---- coordinate mirrors (observation variants) on the rotationally symmetric lens -------------------------
    def mirrors(ob, rbase, label, det):
        for name, hy, px, py, sx, sy in (('mirror-x', HY, -PX, PY, -1, 1), ('mirror-y', -HY, PX, -PY, 1, -1),
                                          ('mirror-xy', -HY, -PX, -PY, -1, -1)):
            rm = record(ob, hy, px, py, w)
            part.transitions += 1
            part.evals += 1
            exp = dict(rbase)
            exp = {k_: v_.copy() for k_, v_ in rbase.items()}
            exp['x'] *= sx
            exp['L'] *= sx
            exp['y'] *= sy
            exp['M'] *= sy
            compare_records(part, f'symmetry-{name}', 'Optic.trace_generic', f'{cfgc},{label}', det, exp, rm,
                            {k_: k_ for k_ in range(rbase['x'].shape[0])}, 1.0)
    mirrors(o, r0, 'original', det0)

    f2_0, S0 = paraxial_seidel(o)

    def apply_and_check(sp_t, mp, s, label, det, check_paraxial=True, skip=(), zoff=0.0):
        ot = LZ.build(sp_t)
        part.states += 1
        rt = record(ot, HY, PX, PY, w)
        part.transitions += 1
        part.evals += 1
        ok = compare_records(part, f'redescription-{label}', 'Optic.trace_generic', cfgc, det, r0, rt, mp, s, skip=skip, zoff=zoff)
        if check_paraxial and f2_0 is not None:
            f2_t, St = paraxial_seidel(ot)
            if f2_t is not None and np.isfinite(f2_0) and abs(f2_0) < 1e6:
                if abs(f2_t - s * f2_0) > TOL * max(1.0, abs(s * f2_0)):
                    part.violation(PID, f'focal-length-{label}', 'Paraxial.f2', cfgc, det, observed=f2_t, expected=s * f2_0, tol=TOL)
                if np.all(np.isfinite(S0)) and np.all(np.isfinite(St)):
                    sc = max(1e-5 * (abs(s) if abs(s) > 100.0 else 1.0), float(np.max(np.abs(S0))) * abs(s))      # sums of 1e-16 are rounding noise of zeros (noise scales with the unit change 1e8)
                    if np.max(np.abs(St - s * S0)) > 1e-8 * sc:
                        cs_ = cfgc
                        if label == 'object-gap-dummy' and sp['surfs'][0]['mat'] == 'mirror' and \
                                np.max(np.abs(St[:4] - s * S0[:4])) <= 1e-8 * sc:
                            cs_ = 'first-surface-is-a-mirror,only-the-distortion-sum-changes'
                        part.violation(PID, f'seidel-sums-{label}', 'Aberrations.seidels', cs_, det, observed=St, expected=s * S0,
                                       tol=1e-8)
        return ot, rt

    nopt = len(sp['surfs'])
    singles = []
    # tilt about the centre of curvature of every spherical surface k >= 2
    for k in range(1, nopt):
        if sp['surfs'][k]['shape'] == 'sphere':
            for th, ax in ((0.05, 'x'), (-0.3, 'x'), (0.3, 'y'), (-0.05, 'y')):
                singles.append(('tilt', (k, th, ax)))
    for j in range(nopt):
        singles.append(('dummy', (j,)))
    for s in (0.01, 0.5, 3.0, 100.0):
        singles.append(('scale', (s,)))
    # a change of unit by eight orders of magnitude (a finite object distance of a few hundred becomes > 1e10 and stays finite)
    if unit['cfg'] in ('finite', 'finite-angle') and all(q['shape'] in ('sphere', 'plane', 'conic') for q in sp['surfs']):
        singles.append(('scale', (1e8,)))

    def do(spx, kind, args):
        if kind == 'tilt':
            return t_tilt(spx, *args)
        if kind == 'dummy':
            return t_dummy(spx, *args)
        return t_scale(spx, *args)

    def admissible(kind, args, spx=None):
        """A dummy plane is a re-description only if it lies strictly between the two neighbouring surfaces along every
        traced ray (it must not cut through a curved neighbour inside the beam)."""
        zs = [0.0]
        for q in sp['surfs']:
            zs.append(zs[-1] + q['t'])
        if kind == 'tilt':
            # the sag describes one hemisphere only: the tilted description is the same surface only while every hit point stays
            # well inside the hemisphere around the *new* vertex
            k_, th_ = args[0], args[1]
            if k_ <= unit.get('stop', 0):
                # tilting the stop surface moves the stop's centre (a different physical lens); a surface in front of the stop is
                # the same physical surface, but the library's paraxial pupil (which ignores tilts and reads the moved vertex) is
                # then a property of the description: only surfaces behind the stop are re-described without touching the launch
                return False
            R_ = sp['surfs'][k_]['R']
            P_ = np.stack([r0['x'][k_ + 1], r0['y'][k_ + 1], r0['z'][k_ + 1]], axis=1)
            okk = np.all(np.isfinite(P_), axis=1)
            if not np.any(okk):
                return False
            C_ = np.array([0.0, 0.0, zs[k_] + R_])
            v_ = (P_[okk] - C_) / abs(R_)
            ax_ = np.array([0.0, 0.0, -1.0 if R_ > 0 else 1.0])
            phi = np.arccos(np.clip(v_ @ ax_, -1, 1))
            return bool(np.max(phi) + abs(th_) < 1.3)
        if kind != 'dummy' or spx is not None:
            return True
        j = args[0]
        zd = zs[j] + 0.4 * sp['surfs'][j]['t']
        za, zb = r0['z'][j + 1], r0['z'][j + 2]
        okk = np.isfinite(za) & np.isfinite(zb)
        if not np.any(okk):
            return False
        lo, hi = np.minimum(za[okk], zb[okk]), np.maximum(za[okk], zb[okk])
        return bool(np.all((zd > lo + 1e-6) & (zd < hi - 1e-6)))

    for kind, args in singles:
        if not admissible(kind, args):
            part.count('inadmissible-dummy-positions')
            continue
        sp_t, mp, s = do(sp, kind, args)
        det = dict(det0, transformation=[kind, list(args)])
        ot, rt = apply_and_check(sp_t, mp, s, kind, det, check_paraxial=(kind != 'tilt'))
        if kind == 'dummy' and args[0] == 0:
            mirrors(ot, rt, 'after-dummy', det)

    # ---- finite object: a dummy plane in the object gap (the "first surface" of the description moves, the lens does not)
    if math.isfinite(sp['obj']):
        for frac in (0.2, 0.5, 0.9):
            # the plane must lie strictly in front of the first surface along every traced ray (a concave-towards-the-object
            # first surface reaches back towards the object at its rim)
            z1 = r0['z'][1]
            okz = np.isfinite(z1)
            if not np.any(okz) or not (-(1 - frac) * sp['obj'] < float(np.min(z1[okz])) - 1e-6):
                part.count('inadmissible-dummy-positions')
                continue
            sp_t, mp, s = t_objdummy(sp, frac)
            det = dict(det0, transformation=['object-gap-dummy', [frac]])
            apply_and_check(sp_t, mp, s, 'object-gap-dummy', det, zoff=(1 - frac) * sp['obj'])

    # ---- depth-2 compositions from a reduced menu ---------------------------------------------------------------
    menu = [('dummy', (0,)), ('scale', (3.0,)), ('scale', (0.5,))]
    if nopt >= 2 and sp['surfs'][nopt - 1]['shape'] == 'sphere':
        menu += [('tilt', (nopt - 1, 0.3, 'x')), ('tilt', (nopt - 1, -0.05, 'y'))]
    if nopt >= 2:
        menu.append(('dummy', (nopt - 1,)))
    for a_ in menu:
        for b_ in menu:
            if a_ == b_ or (a_[0] == 'tilt' and b_[0] == 'tilt'):
                continue        # the tilt-about-centre construction is defined for an untilted surface
            if not (admissible(*a_) and admissible(*b_)):
                continue
            kinds = {a_[0]: a_[1], b_[0]: b_[1]}
            if 'tilt' in kinds and 'dummy' in kinds and kinds['dummy'][0] in (kinds['tilt'][0] - 1, kinds['tilt'][0]):
                continue        # a dummy plane next to the re-positioned vertex is not placed by the same rule
            sp1, mp1, s1 = do(sp, *a_)
            # second transformation addresses surfaces of the already transformed spec: remap indices
            kind2, args2 = b_
            args2 = list(args2)
            if kind2 in ('tilt', 'dummy'):
                args2[0] = mp1[args2[0] + 1] - 1
            sp2, mp2, s2 = do(sp1, kind2, tuple(args2))
            mp = {k_: mp2[mp1[k_]] for k_ in mp1}
            det = dict(det0, transformation=[[a_[0], list(a_[1])], [b_[0], list(b_[1])]])
            apply_and_check(sp2, mp, s1 * s2, 'composition', det, check_paraxial=('tilt' not in (a_[0], b_[0])))

    # ---- wavelength change on the dispersion-free lens -----------------------------------------------------------
    for w2 in (0.45, 0.65):
        rw = record(o, HY, PX, PY, w2)
        part.transitions += 1
        part.evals += 1
        compare_records(part, 'redescription-wavelength', 'Optic.trace_generic', cfgc, dict(det0, wavelength=w2), r0, rw,
                        ident_map(sp), 1.0)

    # ---- the library's own scaling operation -----------------------------------------------------------------------
    if unit['cfg'] != 'finite':   # scale_system is documented to scale planes/conics with *angular* fields completely
        for s in (0.01, 0.5, 3.0, 100.0):
            ol = LZ.build(sp)
            record(ol, HY, PX, PY, w)            # used before scaling
            ol.scale_system(s)
            part.transitions += 2
            part.evals += 1
            sp_m, mp, _ = t_scale(sp, s)
            om = LZ.build(sp_m)
            det = dict(det0, scale_system=s)
            # canonical prescription of scale_system(L) equals the manually scaled lens
            A_ = np.array([float(np.ravel(q)[0]) for q in ol.surface_group.positions])
            B_ = np.array([float(np.ravel(q)[0]) for q in om.surface_group.positions])
            with np.errstate(invalid='ignore'):
                bad = ~((np.abs(A_ - B_) <= TOL * np.maximum(1.0, np.abs(B_))) | (np.isinf(A_) & np.isinf(B_) & (A_ == B_)))
            if np.any(bad):
                part.violation(PID, 'scale_system-positions', 'Optic.scale_system', cfgc, det, observed=A_, expected=B_, tol=TOL)
            RA, RB = np.asarray(ol.surface_group.radii, float), np.asarray(om.surface_group.radii, float)
            with np.errstate(invalid='ignore'):
                bad = ~((np.abs(RA - RB) <= TOL * np.maximum(1.0, np.abs(RB))) | (np.isinf(RA) & np.isinf(RB)))
            if np.any(bad):
                part.violation(PID, 'scale_system-radii', 'Optic.scale_system', cfgc, det, observed=RA, expected=RB, tol=TOL)
            if abs(ol.aperture.value - om.aperture.value) > TOL * max(1.0, abs(om.aperture.value)):
                part.violation(PID, 'scale_system-aperture', 'Optic.scale_system', cfgc, det, observed=ol.aperture.value,
                               expected=om.aperture.value, tol=TOL)
            rl = record(ol, HY, PX, PY, w)
            part.transitions += 1
            compare_records(part, 'scale_system-rays', 'Optic.scale_system', cfgc, det, r0, rl, ident_map(sp), s)
            f2_l, Sl = paraxial_seidel(ol)
            if f2_0 is not None and f2_l is not None and np.isfinite(f2_0) and abs(f2_0) < 1e6:
                if abs(f2_l - s * f2_0) > TOL * max(1.0, abs(s * f2_0)):
                    part.violation(PID, 'scale_system-focal-length', 'Optic.scale_system', cfgc, det, observed=f2_l,
                                   expected=s * f2_0, tol=TOL)
                if np.all(np.isfinite(S0)) and np.all(np.isfinite(Sl)):
                    sc = max(1e-5, float(np.max(np.abs(S0))) * abs(s))      # sums of 1e-16 are rounding noise of zeros
                    if np.max(np.abs(Sl - s * S0)) > 1e-8 * sc:
                        part.violation(PID, 'scale_system-seidel-sums', 'Optic.scale_system', cfgc, det, observed=Sl, expected=s * S0,
                                       tol=1e-8)
    part.sample(dict(word=unit['word'], cfg=unit['cfg'], transformations=len(singles)))
    return part


def nontrivial_guard(total, tier):
    if total.counters.get('lenses-with-image-rays', 0) < 0.5 * max(1, len(total.outcomes)):
        return 'few lenses bring rays to the image'
    return None
