"""C04 - paraxial properties equal matrix optics.

Construction LTS over an axially symmetric 10-symbol alphabet x every stop position; in every state the
configuration menu (object distance x aperture kind x field kind) is swept and every paraxial query of the
library is compared with vmc.ref.abcd evaluated on the prescription rows derived from the spec.
"""
import math

import numpy as np

from vmc import lens as LZ
from vmc.core import Part, relerr
from vmc.lens import S, V
from vmc.ref import abcd, prescription
from vmc.props.c02 import rows_from_optic

PID = 'C04'
TOL = 1e-8
META = dict(
    rule='unit = lens word x stop position; evaluation = one (unit, object distance, aperture kind, field kind) with '
         'all paraxial queries compared; non-trivial = finite non-zero focal length; distinct = rounded (f2, EPL, XPL, '
         'invariant) tuples',
    exhaustive=True,
    bounds=dict(quick='words depth<=2 over 10 symbols + depth 3 over 6 symbols, every stop position, 14 valid + 3 immersion '
                      'configurations each; 24 samples',
                thorough='words depth<=3 over 10 symbols + depth 4 over 5 symbols, every stop, 14 configurations, '
                         '4 numeric variants; samples'),
    tolerances=dict(cross_derivation='1e-8 relative to max(1,|value|,|f|)'),
    assumptions=['f2 defined as -y0/u_k (signed), F1 from first vertex, F2/XPL from image surface, as the library '
                 'documents', 'chief ray sign convention of Paraxial._get_object_position (object point at -field)'],
)


def alphabet(v):
    p = V(v)
    g1, g2 = ['ideal', p['n1'], 0.0], ['ideal', p['n2'], 0.0]
    t = p['t']
    return [
        S('sphere', R=p['R'], mat=g1, t=t[1]),
        S('sphere', R=-p['R'], mat='air', t=t[2]),
        S('plane', mat=g2, t=t[0]),
        S('sphere', R=-1.3 * p['R'], mat=g2, t=t[0]),        # negative element front
        S('sphere', R=-2.5 * p['R'], mat='mirror', t=t[2]),  # concave mirror
        S('plane', mat='air', t=t[1]),
        # ---- depth-limited rest
        S('sphere', R=p['Rs'], mat=g1, t=t[0]),
        S('conic', R=-p['Rc'], k=-1.7, mat='air', t=t[1]),
        S('asph', R=p['Ra'], k=0.0, coeffs=[0.0, -2e-8], mat=g1, t=t[0]),
        S('sphere', R=3.0 * p['R'], mat='mirror', t=t[1]),   # convex mirror
    ]


def configs(p):
    """(object distance, aperture, field type, object medium, image medium)"""
    out = []
    for obj in (LZ.INF, p['od'][0], p['od'][1]):
        for ap in (('EPD', p['epd']), ('imageFNO', p['fno']), ('objectNA', p['na'])):
            for ft in ('angle', 'object_height'):
                if math.isinf(obj) and (ft == 'object_height' or ap[0] == 'objectNA'):
                    continue
                out.append((obj, ap, ft, None, None))
    # immersion: object and image space indices differ from 1 and from each other
    water, oil = ['ideal', 1.33, 0.0], ['ideal', 1.515, 0.0]
    out.append((LZ.INF, ('EPD', p['epd']), 'angle', None, water))
    out.append((p['od'][0], ('EPD', p['epd']), 'angle', water, None))
    out.append((p['od'][1], ('objectNA', p['na']), 'object_height', oil, water))
    return out


def units(tier, variant):
    A = alphabet(variant)
    if tier == 'quick':
        ws = list(LZ.words(A, 1, 2)) + list(LZ.words(A[:6], 3, 3))
    else:
        ws = list(LZ.words(A, 1, 3)) + list(LZ.words(A[:5], 4, 4))
    out = []
    for w in ws:
        for s in range(len(w)):
            out.append(dict(kind='word', word=list(w), stop=s, variant=variant))
    if variant == 0 or tier == 'quick':
        for name in LZ.sample_lenses():
            out.append(dict(kind='sample', name=name, variant=variant))
    return out


def stop_class(rows):
    s = abcd.stop_index(rows)
    last = len(rows) - 1
    return 'first' if s == 1 else ('last' if s == last - 1 else 'interior')


def mirror_class(rows):
    nm = sum(1 for r in rows if r['mirror'])
    return 'odd' if nm % 2 else ('even' if nm else 'none')


def cond(rows, ref, ftype=None, obj=None, kind='cardinal', ap=None):
    """Coarse, declared witness classes - one family per group of clauses."""
    if kind == 'cardinal':
        return 'f2<0' if ref['f2'] < 0 else 'f2>0'
    if kind == 'mag':
        return f'mirrors={mirror_class(rows)}'
    if kind == 'chief':
        return f"field={ftype},object={'infinite' if math.isinf(obj) else 'finite'},stop={stop_class(rows)}"
    if kind == 'pupil':
        return f"aperture={ap[0]},object={'infinite' if math.isinf(obj) else 'finite'},stop={stop_class(rows)}"
    return f'stop={stop_class(rows)},mirrors={mirror_class(rows)}'


def arr(a):
    return np.array([float(np.ravel(x)[0]) for x in a])


def compare(part, clause, site, condition, detail, got, ref, scale=None):
    part.count('cmp:' + clause)
    got = np.asarray(got, dtype=float)
    ref = np.asarray(ref, dtype=float)
    if scale is None:
        scale = np.maximum(1.0, np.maximum(np.abs(got), np.abs(ref)))
    with np.errstate(invalid='ignore'):
        bad = ~(np.abs(got - ref) <= TOL * scale)
    if got.shape != ref.shape or np.any(bad):
        part.violation(PID, clause, site, condition, detail, observed=got, expected=ref, tol=TOL)
        return False
    return True


def check_lens(part, o, rows_w, unit_desc, cfg_desc, ap, ftype, obj, max_field, do_cardinal=True, cond_extra=''):
    P = o.paraxial
    ref = abcd.cardinal(rows_w)
    part.evals += 1
    part.transitions += 1
    if abs(ref['C']) < 1e-9 or not math.isfinite(ref['f2']):
        part.count('skipped-afocal')
        return
    c0 = cond(rows_w, ref, kind='cardinal')
    big = max(1.0, abs(ref['f1']), abs(ref['f2']))
    det = dict(unit_desc, **cfg_desc)
    if do_cardinal:
        for name in ('f2', 'F2', 'f1', 'F1'):
            compare(part, f'cardinal-{name}', f'Paraxial.{name}', c0, det, getattr(P, name)(), ref[name],
                    scale=max(big, abs(ref[name])))
        # P = F - f and N = P + f1 + f2 are the library's documented definitions: checked against the reference
        for name in ('P1', 'P2', 'N1', 'N2'):
            compare(part, f'cardinal-{name}', f'Paraxial.{name}', c0, det, getattr(P, name)(), ref[name],
                    scale=max(big, abs(ref['F1']), abs(ref['F2'])))
    c1 = cond(rows_w, ref, ftype, obj, kind='pupil', ap=ap)
    c2 = cond(rows_w, ref, ftype, obj, kind='chief') + cond_extra
    epl = abcd.EPL(rows_w)
    xpl = abcd.XPL(rows_w)
    if not (math.isfinite(epl) and math.isfinite(xpl)) or abs(epl) > 1e7 or abs(xpl) > 1e7 or abcd.pupil_degenerate(rows_w):
        part.count('skipped-telecentric-pupil')
        return
    compare(part, 'EPL', 'Paraxial.EPL', c1, det, P.EPL(), epl, scale=max(1.0, abs(epl)))
    compare(part, 'XPL', 'Paraxial.XPL', c1, det, P.XPL(), xpl, scale=max(1.0, abs(xpl)))
    epd = abcd.EPD(rows_w, ap)
    compare(part, 'EPD', 'Paraxial.EPD', c1, det, P.EPD(), epd)
    fno = ap[1] if ap[0] == 'imageFNO' else abs(ref['f2']) / epd
    compare(part, 'FNO', 'Paraxial.FNO', c1, det, P.FNO(), fno)
    # marginal ray
    ys, us, launch = abcd.marginal(rows_w, ap)
    ya, ua = P.marginal_ray()
    ya, ua = arr(ya), arr(ua)
    sc = max(1.0, float(np.max(np.abs(ys))))
    ok_m = compare(part, 'marginal-ray-y', 'Paraxial.marginal_ray', c1, det, ya[1:], ys, scale=sc)
    ok_m &= compare(part, 'marginal-ray-u', 'Paraxial.marginal_ray', c1, det, ua[1:], us)
    xpd = 2 * (ys[-1] + us[-1] * xpl)
    compare(part, 'XPD', 'Paraxial.XPD', c1, det, P.XPD(), xpd, scale=max(1.0, abs(xpd)))
    if not math.isinf(obj):
        pre, post = abcd.signed_indices(rows_w)
        mag = post[0] * launch[1] / (post[-1] * us[-1]) if us[-1] != 0 else float('nan')
        # image at infinity (u' ~ 0): the ratio is ill-conditioned, no claim
        if math.isfinite(mag) and abs(us[-1]) > 1e-9 * abs(launch[1]):
            compare(part, 'magnification', 'Paraxial.magnification', cond(rows_w, ref, kind='mag'), det, P.magnification(), mag)
    # chief ray
    yb_r, ub_r = abcd.chief(rows_w, ftype, max_field)
    yb, ub = P.chief_ray()
    yb, ub = arr(yb), arr(ub)
    scb = max(1.0, float(np.max(np.abs(yb_r))))
    ok_c = compare(part, 'chief-ray-y', 'Paraxial.chief_ray', c2, det, yb[1:], yb_r, scale=scb)
    ok_c &= compare(part, 'chief-ray-u', 'Paraxial.chief_ray', c2, det, ub[1:], ub_r)
    # Lagrange invariant from the *returned* arrays: one value at every surface
    if np.all(np.isfinite(yb)) and np.all(np.isfinite(ya)):
        H = np.array(abcd.lagrange(rows_w, ya[1:], ua[1:], yb[1:], ub[1:]))
        part.count('cmp:lagrange-constant')
        if np.max(np.abs(H - H[0])) > TOL * max(1.0, np.max(np.abs(H))):
            part.violation(PID, 'lagrange-constant', 'Paraxial.marginal_ray/chief_ray', c2, det, observed=H,
                           expected='one value', tol=TOL)
        # invariant(): the library evaluates it behind surface 1 with the unsigned index
        inv_ref = abs(H[0])
        compare(part, 'invariant-value', 'Paraxial.invariant', c2, det, abs(P.invariant()), inv_ref)
    part.outcome(ref['f2'], epl, xpl, us[-1], ub_r[-1])


def linearity(part, o, rows_w, unit_desc):
    P = o.paraxial
    w = o.primary_wavelength
    z0 = rows_w[1]['z'] - 3.0
    res = {}
    for name, (y, u) in dict(e1=(1.0, 0.0), e2=(0.0, 1.0), mix=(0.37, -0.021)).items():
        yy, uu = P._trace_generic(y, u, z0, w)
        res[name] = (arr(yy), arr(uu))
    part.transitions += 3
    ymix = 0.37 * res['e1'][0] - 0.021 * res['e2'][0]
    umix = 0.37 * res['e1'][1] - 0.021 * res['e2'][1]
    c0 = cond(rows_w, None, kind='trace')
    compare(part, 'linearity-y', 'Paraxial._trace_generic', c0, unit_desc, res['mix'][0], ymix,
            scale=max(1.0, float(np.max(np.abs(ymix)))))
    compare(part, 'linearity-u', 'Paraxial._trace_generic', c0, unit_desc, res['mix'][1], umix)
    ys, us = abcd.trace(rows_w, 0.37, -0.021, z0)
    compare(part, 'trace-vs-abcd-y', 'Paraxial._trace_generic', c0, unit_desc, res['mix'][0][1:], ys,
            scale=max(1.0, float(np.max(np.abs(ys)))))
    compare(part, 'trace-vs-abcd-u', 'Paraxial._trace_generic', c0, unit_desc, res['mix'][1][1:], us)


def run_unit(unit):
    part = Part(unit)
    v = unit['variant']
    p = V(v)
    if unit['kind'] == 'sample':
        o = LZ.sample_lenses()[unit['name']]()
        w = o.primary_wavelength
        rows_w = rows_from_optic(o, w)
        part.states += 1
        ap = (o.aperture.ap_type, o.aperture.value)
        obj = float(np.ravel(o.surface_group.positions[0])[0])
        rows_w[0]['z'] = obj
        check_lens(part, o, rows_w, dict(sample=unit['name']), {}, ap, o.field_type, -obj if math.isinf(obj) else -obj,
                   o.fields.max_y_field)
        linearity(part, o, rows_w, dict(sample=unit['name']))
        part.sample(dict(sample=unit['name']))
        return part
    A = alphabet(v)
    surfs = LZ.with_stop(LZ.fix_thickness_signs([A[i] for i in unit['word']]), unit['stop'])
    first = True
    for (obj, ap, ft, omat, imat) in configs(p):
        mf = p['ang'] if ft == 'angle' else p['h']
        sp = LZ.spec(surfs, obj=obj, ap=ap, ftype=ft, fields=(0.0, 0.6 * mf, mf), waves=((0.5876, True),),
                     obj_mat=omat, img=(S('plane', mat=imat) if imat else None))
        o = LZ.build(sp)
        rows_w = prescription.rows(sp, lambda m, prev: LZ.ref_index(m, 0.5876, prev))
        part.states += 1
        check_lens(part, o, rows_w, dict(word=unit['word'], stop=unit['stop'], variant=v),
                   dict(obj=obj, ap=list(ap), ftype=ft, obj_mat=omat, img_mat=imat), ap, ft, obj, mf,
                   do_cardinal=first or bool(omat or imat))
        if first:
            linearity(part, o, rows_w, dict(word=unit['word'], stop=unit['stop'], variant=v))
        if not (omat or imat) and ap[0] == 'EPD':
            # the same lens with its field list on the other side of the axis (the largest field is a negative one): normalised
            # coordinates refer to the largest field in absolute value, so the chief ray of Hy = 1 is the same ray
            sp_n = dict(sp, fields=[[-mf, 0.0, 0.0], [0.0, 0.0, 0.0], [0.4 * mf, 0.0, 0.0]])
            o_n = LZ.build(sp_n)
            part.states += 1
            check_lens(part, o_n, rows_w, dict(word=unit['word'], stop=unit['stop'], variant=v),
                       dict(obj=obj, ap=list(ap), ftype=ft, fields=[-mf, 0.0, 0.4 * mf]), ap, ft, obj, mf, do_cardinal=False,
                       cond_extra=',largest-field=negative')
        if first or omat or imat:
            # history: every query was just made on this lens object; now replace the first glass through set_index and ask again
            gi = next((i for i, s_ in enumerate(sp['surfs']) if s_['mat'] not in ('air', 'mirror')), None)
            if gi is not None:
                import copy as _copy
                sp2 = _copy.deepcopy(sp)
                sp2['surfs'][gi]['mat'] = ['ideal', 1.68, 0.0]
                o.set_index(1.68, gi + 1)
                part.transitions += 1
                rows2 = prescription.rows(sp2, lambda m, prev: LZ.ref_index(m, 0.5876, prev))
                check_lens(part, o, rows2, dict(word=unit['word'], stop=unit['stop'], variant=v, after='set_index(1.68)'),
                           dict(obj=obj, ap=list(ap), ftype=ft, obj_mat=omat, img_mat=imat), ap, ft, obj, mf, do_cardinal=True)
        first = False
    part.sample(dict(word=unit['word'], stop=unit['stop'], surfaces=[s['shape'] + ':' + str(s['mat']) for s in surfs]))
    return part


def nontrivial_guard(total, tier):
    if len(total.outcomes) < 0.5 * max(1, total.evals - total.counters.get('skipped-afocal', 0)) * 0.2:
        return f'only {len(total.outcomes)} distinct outcomes in {total.evals} evaluations'
    return None
