"""C03 - rays start at the requested field point and aim at the requested pupil point.

Construction LTS (symmetric 6-symbol alphabet, every stop position) x the FULL configuration menu
(aperture kind x field kind x object distance x telecentric flag), valid and invalid. Oracle: the launch
definition evaluated with the reference pupils of vmc.ref.abcd; invalid combinations must raise ValueError.
Finite domain parts: every named distribution x ray-count menu against closed-form counts.
"""
import math

import numpy as np

from vmc import lens as LZ
from vmc.core import Part
from vmc.lens import S, V
from vmc.ref import abcd, prescription
from vmc.props import c04

PID = 'C03'
TOL = 1e-9
META = dict(
    rule='unit = lens word x stop position (all 36 configurations inside) or one distribution menu; evaluation = one '
         'generate_rays / trace call compared with the launch definition; non-trivial = finite rays; distinct = '
         'rounded (origin, direction) of the rim ray',
    exhaustive=True,
    bounds=dict(quick='words depth<=2 over 6 symbols (+ the 36 depth-3 words behind a leading mirror) x every stop x 36 configurations (valid and invalid) x 6 fields x '
                      '25 pupil points; all 11 distributions x counts {1..7}; vignetting menu {0,0.2,0.5}^2',
                thorough='depth<=3, 4 numeric variants'),
    tolerances=dict(algebraic='1e-9 relative'),
    assumptions=['entrance pupil from vmc.ref.abcd', 'positive field angle = rays travelling towards +y (library '
                 'convention)', 'object space in air'],
)

FIELDS = [-1.0, -0.5, 0.0, 0.3, 0.7, 1.0]


def units(tier, variant):
    A = c04.alphabet(variant)[:6]
    depth = 2 if tier == 'quick' else 3
    out = []
    ws = list(LZ.words(A, 1, depth))
    if tier == 'quick':
        # depth-3 words behind a leading mirror (virtual entrance pupils in front of the launch plane arise here)
        ws += [w for w in LZ.words(A, 3, 3) if w[0] == 4]
    for w in ws:
        for s in range(len(w)):
            out.append(dict(kind='word', word=list(w), stop=s, variant=variant))
    # stop just inside / beyond the back focal plane of a positive front group: the entrance pupil is virtual and far away, on
    # either side (in front of the launch plane when the stop is beyond the focal plane)
    for gap in (0.8, 0.95, 1.05, 1.3, 2.0):
        out.append(dict(kind='word', word=[0, 1, 5], stop=2, variant=variant, gap_factor=gap))
    out.append(dict(kind='concave-first', variant=variant))
    out.append(dict(kind='distributions', variant=variant))
    out.append(dict(kind='vignetting', variant=variant))
    return out


def all_configs(p):
    out = []
    for obj in (LZ.INF, p['od'][0], p['od'][1]):
        for ap in (('EPD', p['epd']), ('imageFNO', p['fno']), ('objectNA', p['na'])):
            for ft in ('angle', 'object_height'):
                for tele in (False, True):
                    out.append((obj, ap, ft, tele))
    return out


def expected_invalid(obj, ap, ft, tele):
    if math.isinf(obj) and (ft == 'object_height' or tele):
        return True
    if tele and (ap[0] in ('EPD', 'imageFNO') or ft == 'angle'):
        return True
    return False


def cond(obj, ap, ft, tele):
    return f"aperture={ap[0]},field={ft},object={'infinite' if math.isinf(obj) else 'finite'},telecentric={tele}"


def check_launch(part, o, rows, obj, ap, ft, tele, mf, det, extra=''):
    """One valid configuration: generate rays for 6 fields x fan25 and compare with the definition."""
    Px, Py = LZ.fan25()
    n = len(Px)
    w = 0.5876
    c = cond(obj, ap, ft, tele) + extra
    if not tele:
        epl = abcd.EPL(rows)
        if abcd.pupil_degenerate(rows):
            part.count('skipped-telecentric-pupil')
            return
        if math.isinf(obj) and ap[0] == 'objectNA':
            part.count('skipped-NA-with-infinite-object')   # EPD undefined (infinite); not a stated rejection
            return
        epd = abcd.EPD(rows, ap)
    for Hy in FIELDS:
        part.evals += 1
        part.transitions += 1
        rays = o.ray_generator.generate_rays(0.0, Hy, Px.copy(), Py.copy(), w)
        O = np.stack([rays.x, rays.y, rays.z], axis=1)
        D = np.stack([rays.L, rays.M, rays.N], axis=1)
        d2 = dict(det, Hy=Hy)
        if O.shape != (n, 3) or not (np.all(np.isfinite(O)) and np.all(np.isfinite(D))):
            part.violation(PID, 'launch-finite', 'RayGenerator.generate_rays', c, d2, observed=[O[:2], D[:2]],
                           expected='finite rays, one per pupil point')
            continue
        if np.max(np.abs(np.linalg.norm(D, axis=1) - 1)) > TOL:
            part.violation(PID, 'unit-direction', 'RayGenerator.generate_rays', c, d2,
                           observed=np.linalg.norm(D, axis=1)[:3], expected=1.0, tol=TOL)
        if np.any(rays.i != 1.0) or np.any(rays.opd != 0.0) or np.any(rays.w != w):
            part.violation(PID, 'unit-intensity-zero-path-wavelength', 'RayGenerator.generate_rays', c, d2,
                           observed=[rays.i[:2], rays.opd[:2], rays.w[:2]], expected=[1.0, 0.0, w])
        if tele:
            # chief ray parallel to the axis; rim rays at sin = NA; origin at the field point
            exp_o = np.array([0.0, Hy * mf, rows[0]['z']])
            if np.max(np.abs(O - exp_o)) > TOL * max(1.0, abs(rows[0]['z'])):
                part.violation(PID, 'origin-at-field-point', 'RayGenerator.generate_rays', c, d2, observed=O[0],
                               expected=exp_o, tol=TOL)
            if np.max(np.abs(D[0] - np.array([0.0, 0.0, 1.0]))) > TOL:
                part.violation(PID, 'telecentric-chief-parallel', 'RayGenerator.generate_rays', c, d2, observed=D[0],
                               expected=[0, 0, 1], tol=TOL)
            rim = np.where(np.abs(np.hypot(Px, Py) - 1) < 1e-12)[0]
            sines = np.hypot(D[rim, 0], D[rim, 1])
            # the stated numerical aperture is n0 sin(theta) in the object medium
            n0 = rows[0]['n_post']
            if np.max(np.abs(sines - ap[1] / n0)) > TOL:
                part.violation(PID, 'telecentric-rim-sine-is-NA', 'RayGenerator.generate_rays', c, d2,
                               observed=sines[:4], expected=ap[1] / n0, tol=TOL)
            # direction of pupil point (Px,Py): azimuth follows (Px,Py)
            r = np.hypot(Px, Py)
            nz = r > 0
            az_err = np.abs(D[nz, 0] * Py[nz] - D[nz, 1] * Px[nz])
            if np.max(az_err) > TOL:
                part.violation(PID, 'telecentric-azimuth', 'RayGenerator.generate_rays', c, d2, observed=D[nz][:2],
                               expected='direction in the plane of (Px,Py)', tol=TOL)
        else:
            # aimed at (Px,Py) * EPD/2 on the entrance pupil plane
            t = (epl - O[:, 2]) / D[:, 2]
            hit = O + t[:, None] * D
            exp = np.stack([Px * epd / 2, Py * epd / 2, np.full(n, epl)], axis=1)
            sc = max(1.0, abs(epd), abs(epl))
            if np.max(np.abs(hit - exp)) > TOL * sc * max(1.0, np.max(np.abs(t)) / sc):
                i = int(np.argmax(np.max(np.abs(hit - exp), axis=1)))
                part.violation(PID, 'aim-at-pupil-point', 'RayGenerator.generate_rays', c, dict(d2, ray=i),
                               observed=hit[i], expected=exp[i], tol=TOL)
            if math.isinf(obj) and rows[1]['shape'] in ('plane', 'sphere', 'conic'):
                # the ray starts in object space: the start point precedes the point where its line meets the first surface
                from vmc.ref import geom as G
                far = 1e4
                Pl, Dl = G.to_local(rows[1], O - far * D, D)
                t1, st1 = G.intersect(rows[1], Pl, Dl)
                okk = st1 == 1
                if np.any(okk) and np.min(t1[okk] - far) < -1e-9:
                    i = int(np.argmin(np.where(okk, t1 - far, np.inf)))
                    part.violation(PID, 'start-point-in-object-space', 'RayGenerator.generate_rays', c, dict(d2, ray=i),
                                   observed=dict(start=O[i], distance_to_first_surface=float(t1[i] - far)),
                                   expected='start point in front of the first surface along the ray')
            if math.isinf(obj):
                # collimated: every ray at angle Hy * max field
                th = math.radians(Hy * mf)
                expd = np.array([0.0, math.sin(th), math.cos(th)])
                if np.max(np.abs(D - expd)) > TOL:
                    part.violation(PID, 'field-angle', 'RayGenerator.generate_rays', c, d2, observed=D[0],
                                   expected=expd, tol=TOL)
            elif ft == 'object_height':
                exp_o = np.array([0.0, Hy * mf, rows[0]['z']])
                if np.max(np.abs(O - exp_o)) > TOL * max(1.0, abs(rows[0]['z'])):
                    part.violation(PID, 'origin-at-field-point', 'RayGenerator.generate_rays', c, d2, observed=O[0],
                                   expected=exp_o, tol=TOL)
            else:
                # finite object, angular field: one object point on the object plane; chief ray at the field angle
                th = math.radians(Hy * mf)
                if np.max(np.abs(O - O[0])) > TOL * max(1.0, abs(rows[0]['z'])) or \
                        abs(O[0, 2] - rows[0]['z']) > TOL * max(1.0, abs(rows[0]['z'])):
                    part.violation(PID, 'common-object-point', 'RayGenerator.generate_rays', c, d2, observed=O[:2],
                                   expected='all rays from one point of the object plane', tol=TOL)
                expd = np.array([0.0, math.sin(th), math.cos(th)])
                if np.max(np.abs(D[0] - expd)) > TOL:
                    part.violation(PID, 'field-angle', 'RayGenerator.generate_rays', c, d2, observed=D[0],
                                   expected=expd, tol=TOL)
        part.outcome(O[2], D[2])
        # the object-surface record of a trace equals the generated launch state
        o.trace_generic(np.zeros(n), np.full(n, Hy), Px.copy(), Py.copy(), w)
        part.transitions += 1
        sg = o.surface_group
        R = np.stack([sg.x[0], sg.y[0], sg.z[0], sg.L[0], sg.M[0], sg.N[0]], axis=1)
        if not np.array_equal(R, np.hstack([O, D])) or np.any(sg.opd[0] != 0) or np.any(sg.intensity[0] != 1):
            part.violation(PID, 'object-record-is-launch-state', 'Optic.trace_generic', c, d2, observed=R[0],
                           expected=np.hstack([O, D])[0])


def run_word(part, unit):
    v = unit['variant']
    p = V(v)
    A = c04.alphabet(v)[:6]
    surfs = LZ.with_stop(LZ.fix_thickness_signs([A[i] for i in unit['word']]), unit['stop'])
    det0 = dict(word=unit['word'], stop=unit['stop'], variant=v)
    if unit.get('gap_factor'):
        # distance from the rear vertex of the front group to its back focal point (reference model), times the factor
        sp_f = LZ.spec(surfs[:2], obj=LZ.INF)
        rows_f = prescription.rows(sp_f, lambda m, prev: LZ.ref_index(m, 0.5876, prev))
        ys_, us_ = abcd.trace(rows_f, 1.0, 0.0, -1.0, 1, 2)
        bfd = -ys_[-1] / us_[-1]
        surfs[1]['t'] = unit['gap_factor'] * bfd
        det0['gap_factor'] = unit['gap_factor']
    Px, Py = LZ.fan25()
    for (obj, ap, ft, tele) in all_configs(p):
        mf = p['ang'] if ft == 'angle' else p['h']
        for flist in ((0.0, 0.6 * mf, mf), (-mf, 0.0, 0.7 * mf)):   # 2nd: the largest field is a negative one
            sp = LZ.spec(surfs, obj=obj, ap=ap, ftype=ft, fields=flist, waves=((0.5876, True),), tele=tele)
            o = LZ.build(sp)
            part.states += 1
            det = dict(det0, obj=obj, ap=list(ap), ftype=ft, tele=tele, fields=list(flist))
            if expected_invalid(obj, ap, ft, tele):
                part.evals += 1
                part.transitions += 1
                part.count('invalid-configurations')
                for call in ('generate_rays', 'trace'):
                    try:
                        if call == 'generate_rays':
                            r = o.ray_generator.generate_rays(0.0, 1.0, Px.copy(), Py.copy(), 0.5876)
                        else:
                            r = o.trace(0.0, 1.0, 0.5876, 3, 'hexapolar')
                        part.violation(PID, 'invalid-combination-rejected', f'{call}', cond(obj, ap, ft, tele), det,
                                       observed='rays returned', expected='ValueError')
                    except ValueError:
                        part.count('rejections-observed')
                continue
            rows = prescription.rows(sp, lambda m, prev: LZ.ref_index(m, 0.5876, prev))
            ref = abcd.cardinal(rows)
            if abs(ref['C']) < 1e-9 and ap[0] == 'imageFNO':
                part.count('skipped-afocal')
                continue
            check_launch(part, o, rows, obj, ap, ft, tele, mf, det)
    # ---- history: the same lens built on an Optic that held ANOTHER lens (different pupils, other conjugates) before reset()
    if len(unit['word']) <= 2 and not unit.get('gap_factor'):
        prior = LZ.spec(LZ.with_stop(LZ.fix_thickness_signs([A[0], dict(A[1], t=3.0 * p['R']), A[5]]), 2), obj=p['od'][0], ap=('objectNA', p['na']),
                        ftype='object_height', fields=(0.0, p['h']), waves=((0.5876, True),))
        for (obj, ap, ft, tele) in [c for c in all_configs(p) if not expected_invalid(*c)][:4]:
            mf = p['ang'] if ft == 'angle' else p['h']
            sp = LZ.spec(surfs, obj=obj, ap=ap, ftype=ft, fields=(0.0, 0.6 * mf, mf), waves=((0.5876, True),), tele=tele)
            rows = prescription.rows(sp, lambda m, prev: LZ.ref_index(m, 0.5876, prev))
            if abs(abcd.cardinal(rows)['C']) < 1e-9 and ap[0] == 'imageFNO':
                continue
            o = LZ.build(dict(sp, reuse_after=prior))
            part.states += 2
            part.transitions += 1
            part.count('reused-optic-configurations')
            det = dict(det0, obj=obj, ap=list(ap), ftype=ft, tele=tele, fields=[0.0, 0.6 * mf, mf], history='lens-B, trace, reset, this lens')
            check_launch(part, o, rows, obj, ap, ft, tele, mf, det, extra=',optic-reused-after-reset')
    # ---- finite object immersed in a medium (n0 != 1): the stated NA is n0 sin U, pupils are imaged from that medium
    if len(unit['word']) <= 2 and not unit.get('gap_factor'):
        for n0 in (1.33, 1.515):
            for ap in (('EPD', p['epd']), ('objectNA', p['na'])):
                for ft in ('angle', 'object_height'):
                    mf = p['ang'] if ft == 'angle' else p['h']
                    obj = p['od'][0]
                    sp = LZ.spec(surfs, obj=obj, ap=ap, ftype=ft, fields=(0.0, 0.6 * mf, mf), waves=((0.5876, True),), obj_mat=['ideal', n0, 0.0])
                    o = LZ.build(sp)
                    part.states += 1
                    rows = prescription.rows(sp, lambda m, prev: LZ.ref_index(m, 0.5876, prev))
                    det = dict(det0, obj=obj, ap=list(ap), ftype=ft, tele=False, fields=[0.0, 0.6 * mf, mf], object_medium=n0)
                    part.count('immersed-object-configurations')
                    check_launch(part, o, rows, obj, ap, ft, False, mf, det, extra=',object-medium=immersed')
                    if ap[0] == 'objectNA' and ft == 'object_height':
                        sp_t = dict(sp, tele=True)
                        o_t = LZ.build(sp_t)
                        part.states += 1
                        check_launch(part, o_t, rows, obj, ap, ft, True, mf, dict(det, tele=True), extra=',object-medium=immersed')
    part.sample(dict(word=unit['word'], stop=unit['stop']))


# -------------------------------------------------------------------------------------------------------
def expected_count(name, n):
    if name == 'hexapolar':
        return 1 + 3 * n * (n + 1)
    if name == 'uniform':
        g = np.linspace(-1, 1, n)
        return int(sum(1 for a in g for b in g if a * a + b * b <= 1.0))
    if name in ('line_x', 'line_y', 'positive_line_x', 'positive_line_y', 'random', 'ring'):
        return n
    if name == 'cross':
        return 2 * n
    raise ValueError(name)


def run_distributions(part, unit):
    from optiland import distribution as DD
    names = ['line_x', 'line_y', 'positive_line_x', 'positive_line_y', 'random', 'uniform', 'hexapolar', 'cross', 'ring']
    for name in names:
        for n in (1, 2, 3, 4, 5, 6, 7):
            if name in ('line_x', 'line_y', 'positive_line_x', 'positive_line_y', 'cross', 'uniform') and n == 1:
                pass
            d = DD.create_distribution(name)
            if name == 'random':
                d = DD.RandomDistribution(seed=7)
            d.generate_points(n)
            part.evals += 1
            part.transitions += 1
            x, y = np.asarray(d.x, dtype=float), np.asarray(d.y, dtype=float)
            exp = expected_count(name, n)
            if len(x) != exp or len(y) != exp:
                part.violation(PID, 'distribution-count', f'distribution:{name}', f'n={n}', dict(name=name, n=n),
                               observed=len(x), expected=exp)
            if len(x) and np.max(x * x + y * y) > 1 + 1e-12:
                part.violation(PID, 'distribution-inside-unit-pupil', f'distribution:{name}', f'n={n}',
                               dict(name=name, n=n), observed=float(np.max(np.hypot(x, y))), expected='<= 1')
            part.outcome(name, n, x[:3], y[:3])
    for sym in (False, True):
        for n in (1, 2, 3, 4, 5, 6):
            d = DD.GaussianQuadrature(is_symmetric=sym)
            d.generate_points(n)
            part.evals += 1
            part.transitions += 1
            exp = n * (1 if sym else 3)
            if len(d.x) != exp:
                part.violation(PID, 'distribution-count', 'distribution:gaussian_quadrature', f'n={n},sym={sym}',
                               dict(n=n, sym=sym), observed=len(d.x), expected=exp)
            if np.max(d.x ** 2 + d.y ** 2) > 1 + 1e-12:
                part.violation(PID, 'distribution-inside-unit-pupil', 'distribution:gaussian_quadrature',
                               f'n={n},sym={sym}', dict(n=n, sym=sym), observed=float(np.max(np.hypot(d.x, d.y))),
                               expected='<= 1')
            part.outcome('gq', sym, n, d.x[:3])
    part.states += 1
    part.sample(dict(distributions=names + ['gaussian_quadrature'], counts=[1, 2, 3, 4, 5, 6, 7]))


def run_vignetting(part, unit):
    """Vignetting factors can only shrink the sampled pupil: pointwise |aim(v)| <= |aim(0)|, and equal at v=0."""
    v = unit['variant']
    p = V(v)
    A = c04.alphabet(v)
    surfs = LZ.with_stop(LZ.fix_thickness_signs([A[0], A[1]]), 1)
    names = ['hexapolar', 'uniform', 'cross', 'ring', 'line_y', 'line_x']
    for obj, ft in ((LZ.INF, 'angle'), (p['od'][0], 'object_height'), (p['od'][0], 'angle')):
        mf = p['ang'] if ft == 'angle' else p['h']
        aims = {}
        for vx in (0.0, 0.2, 0.5):
            for vy in (0.0, 0.2, 0.5):
                sp = LZ.spec(surfs, obj=obj, ap=('EPD', p['epd']), ftype=ft,
                             fields=([0.0, 0.0, 0.0], [0.6 * mf, vx / 2, vy / 2], [mf, vx, vy]))
                o = LZ.build(sp)
                rows = prescription.rows(sp, lambda m, prev: LZ.ref_index(m, 0.5876, prev))
                epl = abcd.EPL(rows)
                part.states += 1
                for name in names:
                    for Hy in (1.0, 0.8, -1.0):
                        rays = o.trace(0.0, Hy, 0.5876, 4, name)
                        part.evals += 1
                        part.transitions += 1
                        sg = o.surface_group
                        O = np.stack([sg.x[0], sg.y[0], sg.z[0]], axis=1)
                        D = np.stack([sg.L[0], sg.M[0], sg.N[0]], axis=1)
                        t = (epl - O[:, 2]) / D[:, 2]
                        hit = (O + t[:, None] * D)[:, :2]
                        c = f"object={'infinite' if math.isinf(obj) else 'finite'},field={ft}"
                        det = dict(obj=obj, ftype=ft, vx=vx, vy=vy, distribution=name, Hy=Hy)
                        aims[(vx, vy, name, Hy)] = hit
                        base = aims[(0.0, 0.0, name, Hy)]
                        # vignetting changes the aim points only: the bundle still travels at Hy x max field (infinite object) or
                        # still starts on the object point (finite object)
                        if math.isinf(obj):
                            th = math.radians(Hy * mf)
                            exp_d = np.array([0.0, math.sin(th), math.cos(th)])
                            if np.max(np.abs(D - exp_d)) > TOL:
                                part.violation(PID, 'field-angle', 'RayGenerator.generate_rays', c + ',vignetted', det,
                                               observed=D[int(np.argmax(np.max(np.abs(D - exp_d), axis=1)))], expected=exp_d, tol=TOL)
                        else:
                            spread = float(np.max(np.abs(O - O[0])))
                            if spread > TOL * max(1.0, abs(obj)):
                                part.violation(PID, 'rays-start-on-the-object-point', 'RayGenerator.generate_rays', c + ',vignetted', det,
                                               observed=spread, expected=0.0, tol=TOL)
                        if hit.shape != base.shape:
                            part.violation(PID, 'vignetting-keeps-count', 'Optic.trace', c, det, observed=hit.shape,
                                           expected=base.shape)
                            continue
                        if np.any(np.abs(hit) > np.abs(base) + 1e-9 * p['epd']):
                            part.violation(PID, 'vignetting-only-shrinks', 'Optic.trace', c, det,
                                           observed=hit[np.argmax(np.abs(hit) - np.abs(base)) // 2], expected='|aim(v)| <= |aim(0)|')
                        part.outcome(vx, vy, name, Hy, hit[-1])
    part.sample(dict(vignetting_menu=[0.0, 0.2, 0.5]))


def run_unit(unit):
    part = Part(unit)
    if unit['kind'] == 'concave-first':
        # a meniscus whose first surface is concave towards the object, narrow beam, wide field: the beam meets the surface where
        # its sag is further from the vertex than the entrance pupil diameter
        g = ['ideal', 1.5, 0.0]
        for R1, fld, epd in ((-20.0, 20.0, 0.5), (-20.0, 30.0, 2.0), (-50.0, 25.0, 1.0)):
            surfs = [S('sphere', R=R1, mat=g, t=3.0), S('sphere', R=0.75 * R1, mat='air', t=12.0), S('plane', mat='air', t=40.0, stop=True)]
            sp = LZ.spec(surfs, obj=LZ.INF, ap=('EPD', epd), ftype='angle', fields=(0.0, 0.6 * fld, fld), waves=((0.5876, True),))
            o = LZ.build(sp)
            part.states += 1
            rows = prescription.rows(sp, lambda m, prev: LZ.ref_index(m, 0.5876, prev))
            check_launch(part, o, rows, LZ.INF, ('EPD', epd), 'angle', False, fld, dict(lens='concave-first meniscus', R1=R1, field=fld, epd=epd),
                         extra=',first-surface-concave-to-the-object')
    elif unit['kind'] == 'word':
        run_word(part, unit)
    elif unit['kind'] == 'distributions':
        run_distributions(part, unit)
    else:
        run_vignetting(part, unit)
    return part


def nontrivial_guard(total, tier):
    if total.counters.get('rejections-observed', 0) < 10:
        return 'no rejected configurations exercised'
    return None
