"""C14 - optimisers leave the lens at the returned solution, never worse than the start.

History LTS: states = (lens, optimisation problem) reached by words over {optimize(front end), undo}; the scipy worker
pool of differential evolution is replaced by a harness-owned map that evaluates the population in an enumerated
*order* (bounded deviations from in-order: adjacent transpositions, rotations, reversal). Finite-domain part: every
variable type x {scaled, unscaled} x {bounded, unbounded} as a handle (set/read/bounds).
Oracle: merit recomputed from independently evaluated operands; returned vector vs variable values; returned objective vs
re-evaluated merit; not worse than the start; inside bounds; pickups and solves satisfied; undo restores the canonical
lens state.
"""
import copy
import itertools
import math

import numpy as np

from vmc import canon
from vmc import lens as LZ
from vmc.core import Part
from vmc.lens import S, V

PID = 'C14'
META = dict(
    rule='unit = (problem, variant of scaling/bounds, history word) or one variable-handle lattice or one DE schedule family; '
         'evaluation = one optimize()/undo()/update() transition with its post-conditions; non-trivial = the optimiser moved '
         'the variables; distinct = rounded returned vectors',
    exhaustive=True,
    bounds=dict(quick='4 problems x {scaled, unscaled} x {bounded, unbounded} x 7 front ends, history words of length <= 3 over '
                      '{optimize, undo}; 9 variable types x 4 handle modes; DE population evaluation orders: identity, reversal, 8 '
                      'transpositions, 8 rotations',
                thorough='all adjacent transpositions and rotations of the DE population; 4 numeric variants'),
    tolerances=dict(state='1e-9 relative', merit='1e-9 relative'),
    assumptions=['np.random.seed fixed per transition (scipy global optimisers draw from the legacy global state)',
                 'OS scheduling of a real process pool (workers=2) is exercised, not enumerated'],
)

W = 0.5876


def problems(v):
    p = V(v)
    R = p['R'] * 1.2
    out = {}
    singlet = [S('sphere', R=R, mat='N-BK7', t=5.0, stop=True), S('sphere', R=-R, mat='air', t=1.6 * R)]
    out['radius-thickness'] = dict(
        spec=LZ.spec(singlet, obj=LZ.INF, ap=('EPD', p['epd']), ftype='angle', fields=(0.0, p['ang']), waves=((W, True),)),
        variables=[('radius', dict(surface_number=1), (0.6 * R, 2.0 * R)), ('radius', dict(surface_number=2), (-2.5 * R, -0.5 * R)),
                   ('thickness', dict(surface_number=2), (0.8 * R, 3.0 * R))],
        operands=[('f2', 1.1 * R, 1.0, {}), ('rms_spot_size', 0.0, 10.0, dict(surface_number=-1, Hx=0.0, Hy=0.0, num_rays=2, wavelength=W,
                                                                           distribution='hexapolar'))],
        pickup=None, solve=None)
    asp = [S('asph', R=R, k=0.0, coeffs=[0.0, 0.0], mat='N-BK7', t=6.0, stop=True), S('sphere', R=-2 * R, mat='air', t=1.7 * R)]
    out['conic-asphere'] = dict(
        spec=LZ.spec(asp, obj=LZ.INF, ap=('EPD', 1.5 * p['epd']), ftype='angle', fields=(0.0, p['ang']), waves=((W, True),)),
        variables=[('conic', dict(surface_number=1), (-3.0, 1.0)), ('asphere_coeff', dict(surface_number=1, coeff_number=1), (-1e-5, 1e-5)),
                   ('thickness', dict(surface_number=2), (1.0 * R, 3.0 * R))],
        operands=[('rms_spot_size', 0.0, 10.0, dict(surface_number=-1, Hx=0.0, Hy=0.0, num_rays=2, wavelength=W, distribution='hexapolar')),
                  ('rms_spot_size', 0.0, 3.0, dict(surface_number=-1, Hx=0.0, Hy=1.0, num_rays=2, wavelength=W, distribution='hexapolar'))],
        pickup=None, solve=None)
    singlet_ideal = [S('sphere', R=R, mat=['ideal', 1.5168, 0.0], t=5.0, stop=True), S('sphere', R=-R, mat='air', t=1.6 * R)]
    out['pickup-solve'] = dict(
        spec=LZ.spec(singlet_ideal, obj=LZ.INF, ap=('EPD', p['epd']), ftype='angle', fields=(0.0, p['ang']), waves=((W, True),)),
        variables=[('radius', dict(surface_number=1), (0.6 * R, 2.0 * R)), ('index', dict(surface_number=1, wavelength=W), (1.45, 1.75)),
                   ('decenter', dict(surface_number=2, axis='y'), (-0.5, 0.5))],
        operands=[('f2', 1.3 * R, 1.0, {}), ('real_y_intercept', 0.0, 5.0, dict(surface_number=-1, Hx=0.0, Hy=0.0, Px=0.0, Py=0.0, wavelength=W)),
                  ('rms_spot_size', 0.0, 5.0, dict(surface_number=-1, Hx=0.0, Hy=0.0, num_rays=2, wavelength=W, distribution='hexapolar'))],
        pickup=(1, 'radius', 2, -1.0, 0.0), solve=('marginal_ray_height', 3, 0.0))
    # index variable on a *catalogue* glass (set_index replaces it by a constant-index medium)
    out['index-on-catalogue-glass'] = dict(
        spec=LZ.spec(singlet, obj=LZ.INF, ap=('EPD', p['epd']), ftype='angle', fields=(0.0, p['ang']), waves=((W, True),)),
        variables=[('index', dict(surface_number=1, wavelength=W), (1.45, 1.75)), ('thickness', dict(surface_number=2), (0.8 * R, 3.0 * R))],
        operands=[('f2', 1.3 * R, 1.0, {})], pickup=None, solve=None)
    # bounds that are exactly 0 in the variable's own units (radius 100 mm scales to 0; a literal 0 on an unscaled type) and
    # are active at the optimum
    zb = [S('conic', R=120.0, k=0.5, mat=['ideal', 1.5168, 0.0], t=5.0, stop=True), S('sphere', R=-120.0, mat='air', t=100.0)]
    out['active-zero-bound'] = dict(
        spec=LZ.spec(zb, obj=LZ.INF, ap=('EPD', 2.0 * p['epd']), ftype='angle', fields=(0.0, p['ang']), waves=((W, True),)),
        variables=[('radius', dict(surface_number=1), (100.0, 300.0)), ('conic', dict(surface_number=1), (0.0, 2.0)),
                   ('thickness', dict(surface_number=2), (10.0, 300.0))],
        operands=[('f2', 60.0, 1.0, {}), ('rms_spot_size', 0.0, 30.0, dict(surface_number=-1, Hx=0.0, Hy=0.0, num_rays=2, wavelength=W,
                                                                          distribution='hexapolar'))],
        pickup=None, solve=None)
    return out


FRONTENDS = ['generic-default', 'generic-L-BFGS-B', 'generic-Nelder-Mead', 'generic-Powell', 'generic-BFGS', 'least-squares', 'dual-annealing', 'de-workers1',
             'de-workers2']


def units(tier, variant):
    out = [dict(kind='handles', variant=variant)]
    words = [['opt'], ['opt', 'undo'], ['opt', 'opt'], ['opt', 'undo', 'opt'], ['opt', 'opt', 'undo'], ['opt', 'undo', 'undo']]
    for pname in problems(variant):
        if pname == 'index-on-catalogue-glass':
            out.append(dict(kind='history', problem=pname, scaled=True, bounded=True, frontend='generic-default', word=['opt', 'undo'], variant=variant))
            continue
        for scaled in (True, False):
            for bounded in (True, False):
                for fe in FRONTENDS:
                    if not bounded and fe in ('dual-annealing', 'de-workers1', 'de-workers2'):
                        continue        # these front ends require bounds (they raise ValueError by design)
                    for wd in words:
                        if fe.startswith('de-workers2') and len(wd) > 2:
                            continue
                        u = dict(kind='history', problem=pname, scaled=scaled, bounded=bounded, frontend=fe, word=wd, variant=variant)
                        if fe == 'de-workers2':
                            u['main_process'] = True
                        out.append(u)
    # construction-order histories of the problem object itself (pickup + solve lens)
    for order in ('update_optics-before-variables', 'operands-before-variables', 'second-lens-after-first-run', 'clear-and-redeclare'):
        for fe in ('generic-default', 'least-squares', 'dual-annealing', 'de-workers1'):
            for scaled in (True, False):
                out.append(dict(kind='late', order=order, frontend=fe, scaled=scaled, variant=variant))
    for fam in ('identity', 'reversal', 'transpositions', 'rotations'):
        out.append(dict(kind='schedules', family=fam, tier=tier, variant=variant))
    return out


def make_problem(pdef, scaled, bounded, o=None):
    from optiland.optimization import OptimizationProblem
    o = o or LZ.build(pdef['spec'])
    if pdef['pickup']:
        o.pickups.add(*pdef['pickup'][:3], scale=pdef['pickup'][3], offset=pdef['pickup'][4])
    if pdef['solve']:
        o.solves.add(*pdef['solve'])
    prob = OptimizationProblem()
    for (vt, kw, (lo, hi)) in pdef['variables']:
        kws = dict(kw)
        if bounded:
            kws.update(min_val=lo, max_val=hi)
        prob.add_variable(o, vt, apply_scaling=scaled, **kws)
    for (ot, target, weight, data) in pdef['operands']:
        d = dict(data)
        d['optic'] = o
        prob.add_operand(ot, target, weight, d)
    return o, prob


def independent_merit(o, pdef):
    """sum (w (value - target))^2 with the operand values recomputed through the public tracing / paraxial API."""
    tot = 0.0
    for (ot, target, weight, data) in pdef['operands']:
        if ot == 'f2':
            val = float(o.paraxial.f2())
        elif ot == 'rms_spot_size':
            o.trace(data['Hx'], data['Hy'], data['wavelength'], data['num_rays'], data['distribution'])
            x = np.asarray(o.surface_group.x[data['surface_number']], float)
            y = np.asarray(o.surface_group.y[data['surface_number']], float)
            val = math.sqrt(float(np.mean((x - x.mean()) ** 2 + (y - y.mean()) ** 2)))
        elif ot == 'real_y_intercept':
            o.trace_generic(data['Hx'], data['Hy'], data['Px'], data['Py'], data['wavelength'])
            val = float(o.surface_group.y[data['surface_number'], 0])
        else:
            raise ValueError(ot)
        tot += (weight * (val - target)) ** 2
    return tot


def physical_value(o, vt, kw):
    s = o.surface_group.surfaces[kw['surface_number']]
    if vt == 'radius':
        return float(s.geometry.radius)
    if vt == 'conic':
        return float(s.geometry.k)
    if vt == 'thickness':
        return float(np.ravel(o.surface_group.get_thickness(kw['surface_number']))[0])
    if vt == 'index':
        return float(np.ravel(s.material_post.n(kw['wavelength']))[0])
    if vt == 'asphere_coeff':
        return float(s.geometry.c[kw['coeff_number']])
    if vt == 'tilt':
        return float(s.geometry.cs.rx if kw['axis'] == 'x' else s.geometry.cs.ry)
    if vt == 'decenter':
        return float(s.geometry.cs.x if kw['axis'] == 'x' else s.geometry.cs.y)
    if vt in ('polynomial_coeff', 'chebyshev_coeff'):
        i, j = kw['coeff_index']
        return float(s.geometry.c[i][j])
    raise ValueError(vt)


def constraints_ok(part, o, pdef, det, cond):
    if pdef['pickup']:
        src, attr, dst, sc, off = pdef['pickup']
        a = float(o.surface_group.surfaces[src].geometry.radius)
        b = float(o.surface_group.surfaces[dst].geometry.radius)
        if abs(b - (sc * a + off)) > 1e-9 * max(1.0, abs(a)):
            part.violation(PID, 'pickup-satisfied-on-return', det['site'], cond, det, observed=b, expected=sc * a + off, tol=1e-9)
    if pdef['solve']:
        _, k, h = pdef['solve']
        ya, ua = o.paraxial.marginal_ray()
        got = float(np.ravel(ya[k])[0])
        if abs(got - h) > 1e-8 * max(1.0, abs(float(np.ravel(ya[1])[0]))):
            part.violation(PID, 'solve-satisfied-on-return', det['site'], cond, det, observed=got, expected=h, tol=1e-8)


class OrderedMap:
    """map-like 'workers' callable for scipy's differential evolution: evaluates the population in a chosen order and returns
    the results in population order."""

    def __init__(self, order_fn):
        self.order_fn = order_fn
        self.calls = 0

    def __call__(self, func, iterable):
        items = list(iterable)
        order = self.order_fn(len(items), self.calls)
        self.calls += 1
        res = [None] * len(items)
        for i in order:
            res[i] = func(items[i])
        return res


def run_frontend(prob, fe, workers=None):
    from optiland.optimization import OptimizerGeneric, LeastSquares, DualAnnealing, DifferentialEvolution
    np.random.seed(2024)
    if fe == 'generic-default':
        opt = OptimizerGeneric(prob)
        return opt, lambda: opt.optimize(maxiter=30, disp=False, tol=1e-6)
    if fe == 'generic-L-BFGS-B':
        opt = OptimizerGeneric(prob)
        return opt, lambda: opt.optimize(method='L-BFGS-B', maxiter=30, disp=False, tol=1e-6)
    if fe == 'generic-Nelder-Mead':
        opt = OptimizerGeneric(prob)
        return opt, lambda: opt.optimize(method='Nelder-Mead', maxiter=60, disp=False, tol=1e-6)
    if fe == 'generic-Powell':
        opt = OptimizerGeneric(prob)
        return opt, lambda: opt.optimize(method='Powell', maxiter=10, disp=False, tol=1e-6)
    if fe == 'generic-BFGS':
        opt = OptimizerGeneric(prob)
        return opt, lambda: opt.optimize(method='BFGS', maxiter=30, disp=False, tol=1e-6)
    if fe == 'least-squares':
        opt = LeastSquares(prob)
        return opt, lambda: opt.optimize(maxiter=30, disp=False, tol=1e-6)
    if fe == 'dual-annealing':
        opt = DualAnnealing(prob)
        return opt, lambda: opt.optimize(maxiter=12, disp=False)
    if fe.startswith('de'):
        opt = DifferentialEvolution(prob)
        wk = workers if workers is not None else (1 if fe == 'de-workers1' else 2)
        return opt, lambda: opt.optimize(maxiter=2, disp=False, workers=wk)
    raise ValueError(fe)


def check_return(part, o, prob, pdef, res, fe, start_merit, det, cond):
    x = np.atleast_1d(np.asarray(res.x, float))
    vals = np.array([float(np.ravel(v.value)[0]) for v in prob.variables])
    part.count('cmp:on-return')
    if vals.shape != x.shape or np.max(np.abs(vals - x)) > 1e-9 * max(1.0, np.max(np.abs(x))):
        part.violation(PID, 'lens-is-at-returned-solution', det['site'], cond, det, observed=vals, expected=x, tol=1e-9)
    fun = float(np.ravel(res.fun)[0])
    merit = float(prob.sum_squared())
    if abs(merit - fun) > 1e-9 * max(1.0, abs(fun)):
        part.violation(PID, 'returned-objective-is-merit-of-the-lens', det['site'], cond, det, observed=merit, expected=fun, tol=1e-9)
    indep = independent_merit(o, pdef)
    if abs(merit - indep) > 1e-9 * max(1.0, abs(indep)):
        part.violation(PID, 'merit-is-weighted-sum-of-squares', 'OptimizationProblem.sum_squared', cond, det, observed=merit, expected=indep, tol=1e-9)
    if fun > start_merit * (1 + 1e-9) + 1e-12:
        part.violation(PID, 'objective-not-worse-than-start', det['site'], cond, det, observed=fun, expected=f'<= {start_merit}')
    for v_, xv in zip(prob.variables, vals):
        lo, hi = v_.bounds
        if (lo is not None and xv < lo - 1e-9 * max(1, abs(lo))) or (hi is not None and xv > hi + 1e-9 * max(1, abs(hi))):
            part.violation(PID, 'bounded-variable-within-bounds', det['site'], cond, dict(det, variable=v_.type), observed=float(xv), expected=[lo, hi])
    constraints_ok(part, o, pdef, det, cond)
    if np.max(np.abs(x - np.asarray(det['x0']))) > 1e-9:
        part.count('optimiser-moved')


def run_history(part, unit):
    pdef = problems(unit['variant'])[unit['problem']]
    o, prob = make_problem(pdef, unit['scaled'], unit['bounded'])
    part.states += 1
    cond = 'frontend=' + (unit['frontend'] if unit['frontend'] in ('generic-Powell', 'generic-BFGS') else unit['frontend'].split('-')[0])
    if unit['problem'] == 'index-on-catalogue-glass':
        cond += ',index-variable-on-catalogue-glass'
    base = dict(problem=unit['problem'], scaled=unit['scaled'], bounded=unit['bounded'], frontend=unit['frontend'], word=unit['word'],
                variant=unit['variant'])
    stack = []          # canonical states before each optimize()
    opt = None
    for step, act in enumerate(unit['word']):
        det = dict(base, step=step, site=f"{unit['frontend']}.{'optimize' if act == 'opt' else 'undo'}")
        if act == 'opt':
            before = canon.optic(o)
            x0 = [float(np.ravel(v.value)[0]) for v in prob.variables]
            start = float(prob.sum_squared())
            if opt is None:
                opt, call = run_frontend(prob, unit['frontend'])
            else:
                np.random.seed(2024 + step)
                _, call = run_frontend(prob, unit['frontend'])
                # keep the same optimiser object (its undo stack): rebind the call to it
                opt2, call = run_frontend(prob, unit['frontend'])
                opt2._x = opt._x
                opt = opt2
            try:
                res = call()
            except ValueError as exc:
                part.transitions += 1
                part.evals += 1
                onb = [any(b is not None and abs(x_ - b) <= 1e-12 * max(1.0, abs(b)) for b in v_.bounds) for x_, v_ in zip(x0, prob.variables)]
                inside = all((v_.bounds[0] is None or x_ >= v_.bounds[0]) and (v_.bounds[1] is None or x_ <= v_.bounds[1]) for x_, v_ in zip(x0, prob.variables))
                if 'x0 lay outside the specified bounds' in str(exc) and inside and any(onb):
                    part.violation(PID, 'optimise-from-a-valid-state-succeeds', 'DifferentialEvolution.optimize' if unit['frontend'].startswith('de') else det['site'],
                                   'start-point-exactly-on-a-bound',
                                   dict(det, x0=x0, bounds=[list(v_.bounds) for v_ in prob.variables]), observed=str(exc)[:120],
                                   expected='optimize() runs from the state the previous run left')
                    break
                raise
            part.transitions += 1
            part.evals += 1
            stack.append(before)
            det['x0'] = x0
            check_return(part, o, prob, pdef, res, unit['frontend'], start, det, cond)
            part.outcome(unit['problem'], unit['scaled'], unit['bounded'], unit['frontend'], step, np.atleast_1d(res.x))
        else:
            opt.undo()
            part.transitions += 1
            part.evals += 1
            if stack:
                want = stack.pop()
                got = canon.optic(o)
                part.count('cmp:undo')
                if got != want:
                    part.violation(PID, 'undo-restores-the-lens', det['site'], cond, det, observed=canon.diff(want, got),
                                   expected='lens as before the run')
                constraints_ok(part, o, pdef, det, cond)
    part.sample(base)


def run_late(part, unit):
    """Histories over the construction of the problem: the order in which variables, operands, update_optics(), runs and
    further lenses arrive must not matter for what holds on return."""
    from optiland.optimization import OptimizationProblem
    pdef = problems(unit['variant'])['pickup-solve']
    order, fe = unit['order'], unit['frontend']
    cond = f"frontend={fe.split('-')[0]},order={order}"
    base = dict(problem='pickup-solve', order=order, frontend=fe, scaled=unit['scaled'], variant=unit['variant'])

    def lens():
        o = LZ.build(pdef['spec'])
        o.pickups.add(*pdef['pickup'][:3], scale=pdef['pickup'][3], offset=pdef['pickup'][4])
        o.solves.add(*pdef['solve'])
        part.states += 1
        return o

    def add_vars(prob, o):
        for (vt, kw, (lo, hi)) in pdef['variables']:
            prob.add_variable(o, vt, apply_scaling=unit['scaled'], min_val=lo, max_val=hi, **kw)

    def add_ops(prob, o):
        for (ot, target, weight, data) in pdef['operands']:
            prob.add_operand(ot, target, weight, dict(data, optic=o))

    def run(prob, lenses_, step):
        det = dict(base, step=step, site=f'{fe}.optimize')
        x0 = [float(np.ravel(v.value)[0]) for v in prob.variables]
        start = float(prob.sum_squared())
        np.random.seed(2024 + step)
        _, call = run_frontend(prob, fe)
        res = call()
        part.transitions += 1
        part.evals += 1
        x = np.atleast_1d(np.asarray(res.x, float))
        vals = np.array([float(np.ravel(v.value)[0]) for v in prob.variables])
        if vals.shape != x.shape or np.max(np.abs(vals - x)) > 1e-9 * max(1.0, np.max(np.abs(x))):
            part.violation(PID, 'lens-is-at-returned-solution', det['site'], cond, det, observed=vals, expected=x, tol=1e-9)
        fun, merit = float(np.ravel(res.fun)[0]), float(prob.sum_squared())
        if abs(merit - fun) > 1e-9 * max(1.0, abs(fun)):
            part.violation(PID, 'returned-objective-is-merit-of-the-lens', det['site'], cond, det, observed=merit, expected=fun, tol=1e-9)
        indep = sum(independent_merit(o_, pdef) for o_ in lenses_)
        if abs(merit - indep) > 1e-9 * max(1.0, abs(indep)):
            part.violation(PID, 'merit-is-weighted-sum-of-squares', 'OptimizationProblem.sum_squared', cond, det, observed=merit, expected=indep, tol=1e-9)
        if fun > start * (1 + 1e-9) + 1e-12:
            part.violation(PID, 'objective-not-worse-than-start', det['site'], cond, det, observed=fun, expected=f'<= {start}')
        for o_ in lenses_:
            constraints_ok(part, o_, pdef, det, cond)
        if np.max(np.abs(x - np.asarray(x0))) > 1e-9:
            part.count('optimiser-moved')
        part.outcome('late', order, fe, unit['scaled'], step, x)

    prob = OptimizationProblem()
    a = lens()
    if order == 'update_optics-before-variables':
        prob.update_optics()
        add_vars(prob, a)
        add_ops(prob, a)
        run(prob, [a], 0)
    elif order == 'operands-before-variables':
        add_ops(prob, a)
        float(prob.sum_squared())
        add_vars(prob, a)
        run(prob, [a], 0)
    elif order == 'second-lens-after-first-run':
        add_vars(prob, a)
        add_ops(prob, a)
        run(prob, [a], 0)
        b = lens()
        add_vars(prob, b)
        add_ops(prob, b)
        run(prob, [a, b], 1)
    else:
        add_vars(prob, a)
        add_ops(prob, a)
        run(prob, [a], 0)
        prob.clear_variables()
        add_vars(prob, a)
        run(prob, [a], 1)
    part.sample(base)


def run_handles(part, unit):
    """Every variable type as a handle: update(v) then value == v; bounds in the units of value."""
    from optiland.optimization.variable import Variable
    p = V(unit['variant'])
    R = p['R']
    surfs = [S('asph', R=R, k=-0.2, coeffs=[1e-5, 2e-8], mat='N-BK7', t=5.0, stop=True),
             S('poly', R=-2 * R, k=0.0, coeffs=[[0.0, 1e-3], [2e-3, 1e-4]], mat='air', t=8.0),
             S('cheb', R=3 * R, k=0.0, coeffs=[[0.0, 0.01], [0.02, 0.0]], norm=[100.0, 100.0], mat=['ideal', 1.6, 0.0], t=4.0),
             S('sphere', R=-R, mat='air', t=50.0)]
    spec = LZ.spec(surfs, obj=LZ.INF, ap=('EPD', 4.0), ftype='angle', fields=(0.0, 3.0), waves=((W, True),))
    cases = [('radius', dict(surface_number=1), [R * 1.1, 123.0, -77.0], (0.5 * R, 3 * R)),
             ('conic', dict(surface_number=1), [-1.0, 0.3, 0.0], (-2.0, 1.0)),
             ('thickness', dict(surface_number=2), [3.0, 12.5, 8.0], (1.0, 20.0)),
             ('index', dict(surface_number=1, wavelength=W), [1.5, 1.72], (1.4, 1.9)),
             ('asphere_coeff', dict(surface_number=1, coeff_number=1), [1e-8, -3e-7, 0.0], (-1e-6, 1e-6)),
             ('asphere_coeff', dict(surface_number=1, coeff_number=0), [2e-5, -1e-4], (-1e-3, 1e-3)),
             ('tilt', dict(surface_number=2, axis='x'), [0.01, -0.2], (-0.3, 0.3)),
             ('tilt', dict(surface_number=2, axis='y'), [0.05], (-0.3, 0.3)),
             ('decenter', dict(surface_number=2, axis='x'), [0.3, -1.0], (-2.0, 2.0)),
             ('decenter', dict(surface_number=3, axis='y'), [0.7], (-2.0, 2.0)),
             ('polynomial_coeff', dict(surface_number=2, coeff_index=[1, 1]), [2e-4, -5e-4], (-1e-2, 1e-2)),
             ('polynomial_coeff', dict(surface_number=2, coeff_index=[2, 2]), [1e-5], (-1e-2, 1e-2)),
             ('chebyshev_coeff', dict(surface_number=3, coeff_index=[1, 0]), [0.03, -0.01], (-0.1, 0.1))]
    for vt, kw, values, (lo, hi) in cases:
        for scaled in (True, False):
            for bounded in (True, False):
                o = LZ.build(spec)
                part.states += 1
                kws = dict(kw)
                if bounded:
                    kws.update(min_val=lo, max_val=hi)
                var = Variable(o, vt, apply_scaling=scaled, **kws)
                cond = f'type={vt},scaled={scaled}'
                det = dict(type=vt, kwargs={k_: v_ for k_, v_ in kw.items()}, scaled=scaled, bounded=bounded, variant=unit['variant'])
                before = canon.optic(o)
                for phys in values:
                    # the handle's own value domain: set the physical quantity through the public setter, read the handle
                    v0 = float(np.ravel(var.value)[0])
                    var.update(v0)
                    part.transitions += 1
                    part.evals += 1
                    v1 = float(np.ravel(var.value)[0])
                    if abs(v1 - v0) > 1e-12 * max(1.0, abs(v0)):
                        part.violation(PID, 'variable-set-then-read', 'Variable.update', cond, det, observed=v1, expected=v0, tol=1e-12)
                    # set a new value in handle units: value must read back; the physical quantity must be its unscaled image
                    hv = var.variable.scale(phys) if scaled else phys
                    var.update(hv)
                    part.transitions += 1
                    got = float(np.ravel(var.value)[0])
                    if abs(got - hv) > 1e-9 * max(1.0, abs(hv)):
                        part.violation(PID, 'variable-set-then-read', 'Variable.update', cond, det, observed=got, expected=hv, tol=1e-9)
                    pv = physical_value(o, vt, kw)
                    if abs(pv - phys) > 1e-9 * max(1e-12, abs(phys)) + 1e-18:
                        part.violation(PID, 'variable-sets-the-physical-quantity', 'Variable.update', cond, det, observed=pv, expected=phys, tol=1e-9)
                    part.outcome(vt, scaled, bounded, phys)
                if bounded:
                    b = var.bounds
                    # bounds are expressed in the same units as value: driving the handle to a bound puts the physical quantity on
                    # the bound that was given
                    for which, bval, phys_b in (('min', b[0], lo), ('max', b[1], hi)):
                        var.update(bval)
                        part.transitions += 1
                        part.evals += 1
                        pv = physical_value(o, vt, kw)
                        if abs(pv - phys_b) > 1e-9 * max(1e-12, abs(phys_b)):
                            part.violation(PID, 'bounds-in-units-of-value', 'Variable.bounds', cond, dict(det, bound=which), observed=pv,
                                           expected=phys_b, tol=1e-9)
                else:
                    if var.bounds != (None, None):
                        part.violation(PID, 'bounds-in-units-of-value', 'Variable.bounds', cond, det, observed=list(var.bounds), expected=[None, None])
    part.sample(dict(handles=[c_[0] for c_ in cases]))


def orders(family, n, tier):
    if family == 'identity':
        return [('identity', lambda m, call: list(range(m)))]
    if family == 'reversal':
        return [('reversal', lambda m, call: list(range(m))[::-1])]
    out = []
    idxs = list(range(n - 1)) if tier == 'thorough' else sorted(set([0, 1, 2, n // 3, n // 2, n - 3, n - 2]))[:8]
    if family == 'transpositions':
        for i in idxs:
            def f(m, call, i=i):
                o_ = list(range(m))
                if i + 1 < m:
                    o_[i], o_[i + 1] = o_[i + 1], o_[i]
                return o_
            out.append((f'swap{i}', f))
    if family == 'rotations':
        for i in idxs:
            def f(m, call, i=i):
                o_ = list(range(m))
                k_ = (i + 1) % m
                return o_[k_:] + o_[:k_]
            out.append((f'rot{i + 1}', f))
    return out


def run_schedules(part, unit):
    """Differential evolution with the population evaluated in every enumerated order: same returned solution, lens at it."""
    pdef = problems(unit['variant'])['radius-thickness']
    ref = None
    nvar = len(pdef['variables'])
    npop = 15 * nvar
    for name, fn in orders(unit['family'], npop, unit['tier']):
        o, prob = make_problem(pdef, True, True)
        part.states += 1
        start = float(prob.sum_squared())
        x0 = [float(np.ravel(v.value)[0]) for v in prob.variables]
        opt, call = run_frontend(prob, 'de-map', workers=OrderedMap(fn))
        res = call()
        part.transitions += 1
        part.evals += 1
        cond = f'frontend=de-maplike,schedule={unit["family"]}'
        det = dict(problem='radius-thickness', schedule=name, site='DifferentialEvolution.optimize', x0=x0, variant=unit['variant'])
        check_return(part, o, prob, pdef, res, 'de-map', start, det, cond)
        # the in-order run is the reference: an order-independent implementation returns the same solution
        if ref is None:
            o2, prob2 = make_problem(pdef, True, True)
            opt2, call2 = run_frontend(prob2, 'de-map', workers=OrderedMap(lambda m, c_: list(range(m))))
            ref = call2()
        if np.max(np.abs(np.asarray(res.x) - np.asarray(ref.x))) > 1e-6 * max(1.0, float(np.max(np.abs(ref.x)))) or abs(res.fun - ref.fun) > 1e-6 * max(1.0, abs(ref.fun)):
            part.violation(PID, 'solution-independent-of-evaluation-order', 'DifferentialEvolution.optimize', cond, det, observed=res.x, expected=ref.x)
        part.outcome('schedule', name, np.asarray(res.x))
    part.sample(dict(schedules=unit['family']))


def run_unit(unit):
    part = Part(unit)
    dict(history=run_history, handles=run_handles, schedules=run_schedules, late=run_late)[unit['kind']](part, unit)
    return part


def nontrivial_guard(total, tier):
    if total.counters.get('optimiser-moved', 0) < 0.5 * max(1, total.counters.get('cmp:on-return', 0)):
        return 'optimisers hardly moved the variables'
    return None
