"""C08 - Seidel and first-order chromatic terms equal the classical surface formulas.

Construction LTS over a conic-free alphabet (spheres, planes, mirrors; ideal and dispersive catalogue glasses) x every
stop position x {infinite, finite} object. Oracle: Welford's surface contributions (vmc.ref.seidel, signed indices)
evaluated with the paraxial rays the library returns (ray defects are C04's), the defining identities of the returned
families, stop-shift invariance of S_I and S_IV, and the small-aperture limit of the real marginal-ray error.
"""
import math

import numpy as np

from vmc import lens as LZ
from vmc.core import Part
from vmc.lens import S, V
from vmc.ref import abcd, prescription, seidel

PID = 'C08'
TOL = 1e-8
META = dict(
    rule='unit = lens word (all stop positions and both object kinds inside); evaluation = one third_order()/accessor/'
         'operand call compared with the reference; non-trivial = non-zero spherical term; distinct = rounded Seidel sums',
    exhaustive=True,
    bounds=dict(quick='words depth<=2 over 9 symbols + depth 3 over 6, every stop, objects {inf, finite} + immersed image with vanishing field',
                thorough='depth<=3 over 9 symbols + depth 4 over 4 mirror-free symbols, 4 numeric variants'),
    tolerances=dict(cross_derivation='1e-8 relative to the largest term of the family', limit='observed order >= 1.8'),
    assumptions=['Welford surface contributions with signed indices', 'library sign convention frozen in vmc/ref/seidel.py',
                 'dn = n(0.4861) - n(0.6563) as the library documents'],
)
NAMES = ['TSC', 'SC', 'CC', 'TCC', 'TAC', 'AC', 'TPC', 'PC', 'DC', 'TAchC', 'LchC', 'TchC', 'S']


def alphabet(v):
    p = V(v)
    g1, g2 = ['ideal', p['n1'], 0.0], ['ideal', p['n2'], 0.0]
    t = p['t']
    return [
        S('sphere', R=p['R'], mat='N-BK7', t=t[1]),
        S('sphere', R=-p['R'], mat='air', t=t[2]),
        S('plane', mat='SF11', t=t[0]),
        S('sphere', R=-1.3 * p['R'], mat='F2', t=t[0]),
        S('sphere', R=-2.5 * p['R'], mat='mirror', t=t[2]),
        S('plane', mat='air', t=t[1]),
        S('sphere', R=p['Rs'], mat=g1, t=t[0]),
        S('sphere', R=p['R'], mat=g2, t=t[1]),
        S('sphere', R=3.0 * p['R'], mat='mirror', t=t[1]),
    ]


MIRROR_FREE = [0, 1, 2, 3]


def units(tier, variant):
    A = alphabet(variant)
    if tier == 'quick':
        ws = list(LZ.words(A, 1, 2)) + list(LZ.words(A[:6], 3, 3))
    else:
        ws = list(LZ.words(A, 1, 3)) + [tuple(MIRROR_FREE[i] for i in w) for w in LZ.words(MIRROR_FREE, 4, 4)]
    return [dict(word=list(w), variant=variant) for w in ws]


def arr(a):
    return np.array([float(np.ravel(x)[0]) for x in a])


def reference_terms(o, sp, ya_shift=False):
    """Reference transverse terms from the library's paraxial rays and the spec's curvatures / indices."""
    rows = prescription.rows(sp, lambda m, prev: LZ.ref_index(m, 0.5876, prev))
    rF = prescription.rows(sp, lambda m, prev: LZ.ref_index(m, 0.4861, prev))
    rC = prescription.rows(sp, lambda m, prev: LZ.ref_index(m, 0.6563, prev))
    ya, ua = o.paraxial.marginal_ray()
    yb, ub = o.paraxial.chief_ray()
    ya, ua, yb, ub = arr(ya), arr(ua), arr(yb), arr(ub)
    K = len(rows) - 2
    pre, post = abcd.signed_indices(rows)
    sg = [1.0 if pre[k] > 0 else -1.0 for k in range(len(rows))]
    sg2 = [1.0 if post[k] > 0 else -1.0 for k in range(len(rows))]
    c = [abcd.curvature(rows[k]) for k in range(1, K + 1)]
    dnpre = [sg[k] * (rF[k]['n_pre'] - rC[k]['n_pre']) for k in range(1, K + 1)]
    dnpost = [sg2[k] * (rF[k]['n_post'] - rC[k]['n_post']) for k in range(1, K + 1)]
    con = seidel.contributions(c, pre[1:K + 1], post[1:K + 1], dnpre, dnpost, ya[1:K + 1], ua[0:K], ua[1:K + 1],
                               yb[1:K + 1], ub[0:K], ub[1:K + 1])
    tr = seidel.transverse(con, post[K], ua[K])
    # the variant the library is known to compute for the colour terms: marginal height of the *previous* surface
    con_shift = seidel.contributions(c, pre[1:K + 1], post[1:K + 1], dnpre, dnpost, ya[0:K], ua[0:K], ua[1:K + 1],
                                     yb[1:K + 1], ub[0:K], ub[1:K + 1])
    # only the explicit y factor is shifted in the library, A keeps the true height
    A_true = np.asarray(pre[1:K + 1]) * (ua[0:K] + np.asarray(c) * ya[1:K + 1])
    Ab_true = np.asarray(pre[1:K + 1]) * (ub[0:K] + np.asarray(c) * yb[1:K + 1])
    Ddn = np.asarray(dnpost) / np.asarray(post[1:K + 1]) - np.asarray(dnpre) / np.asarray(pre[1:K + 1])
    kk = post[K] * ua[K]
    shift = dict(TAchC=A_true * ya[0:K] * Ddn / kk, TchC=Ab_true * ya[0:K] * Ddn / kk)
    return rows, tr, shift, dict(ya=ya, ua=ua, yb=yb, ub=ub, K=K, n_last=post[K], u_last=ua[K], u_final=ua[-1],
                                 n_final=rows[-1]['n_post'], con=con)


def check_state(part, o, sp, det, full, cond_extra=''):
    rows, tr, shift, aux = reference_terms(o, sp)
    K = aux['K']
    has_mirror = any(r['mirror'] for r in rows)
    cm = 'has_mirror' if has_mirror else 'refractive'
    to = o.aberrations.third_order()
    part.evals += 1
    part.transitions += 1
    lib = {k: np.asarray(v, dtype=float).ravel() for k, v in zip(NAMES, to)}
    u_last = aux['u_last']
    if not np.isfinite(u_last) or abs(u_last) < 1e-9:
        part.count('skipped-afocal')
        return None
    for name in ('TSC', 'CC', 'TAC', 'TPC', 'DC'):
        ref = tr[name]
        got = lib[name]
        ok = np.isfinite(ref)
        sc = max(1e-12, float(np.max(np.abs(ref[ok])))) if np.any(ok) else 1.0
        part.count('cmp:' + name)
        if got.shape != ref.shape or np.max(np.abs(got[ok] - ref[ok])) > TOL * sc:
            j = int(np.argmax(np.abs(np.where(ok, got - ref, 0))))
            part.violation(PID, f'surface-term-{name}', 'Aberrations.third_order', cm + cond_extra, dict(det, surface=j + 1),
                           observed=got, expected=ref, tol=TOL)
    for name in ('TAchC', 'TchC'):
        ref, got, alt = tr[name], lib[name], shift[name]
        sc = max(1e-12, float(np.max(np.abs(ref))))
        part.count('cmp:' + name)
        if got.shape != ref.shape or np.max(np.abs(got - ref)) > TOL * sc:
            cond = cm
            if got.shape == alt.shape and np.max(np.abs(got - alt)) <= TOL * max(sc, float(np.max(np.abs(alt)))):
                cond += ',uses-marginal-height-of-previous-surface'
            part.violation(PID, f'surface-term-{name}', 'Aberrations.third_order', cond, det, observed=got, expected=ref, tol=TOL)
    # ---- identities of the returned families --------------------------------------------------------------------
    def ident(name, got, exp):
        part.count('cmp:identity')
        sc = max(1e-12, float(np.max(np.abs(exp))) if np.size(exp) else 1.0)
        if np.shape(got) != np.shape(exp) or np.max(np.abs(np.asarray(got) - np.asarray(exp))) > 1e-10 * sc:
            part.violation(PID, f'identity-{name}', 'Aberrations.third_order', cm, det, observed=got, expected=exp, tol=1e-10)
    ident('TCC=3CC', lib['TCC'], 3 * lib['CC'])
    # "the final marginal slope" is the slope behind the image surface (which refracts into its own medium)
    uf = aux['u_final']
    ident('SC=-TSC/u', lib['SC'], -lib['TSC'] / uf)
    ident('AC=-TAC/u', lib['AC'], -lib['TAC'] / uf)
    ident('PC=-TPC/u', lib['PC'], -lib['TPC'] / uf)
    ident('LchC=-TAchC/u', lib['LchC'], -lib['TAchC'] / uf)
    sums = np.array([-np.sum(lib[k]) * aux['n_final'] * uf * 2 for k in ('TSC', 'CC', 'TAC', 'TPC', 'DC')])
    ident('sums', lib['S'], sums)
    if full:
        A = o.aberrations
        ident('seidels()', np.asarray(A.seidels(), float).ravel(), lib['S'])
        from optiland.optimization.operand.aberration import AberrationOperand as AO
        for nm in NAMES[:-1]:
            acc = np.asarray(getattr(A, nm)(), float).ravel()
            ident(f'accessor-{nm}', acc, lib[nm])
            part.transitions += 1
            for j in range(K):
                ident(f'operand-{nm}', float(getattr(AO, nm)(o, j)), float(lib[nm][j]))
            ident(f'operand-{nm}_sum', float(getattr(AO, nm + '_sum')(o)), float(np.sum(lib[nm])))
        for j in range(5):
            ident('operand-seidels', float(AO.seidels(o, j + 1)), float(lib['S'][j]))
    if abs(lib['TSC']).max() > 0:
        part.count('nontrivial')
    part.outcome(det.get('word'), det.get('stop'), det.get('obj'), lib['S'])
    return lib, cm


def run_unit(unit):
    part = Part(unit)
    v = unit['variant']
    p = V(v)
    A = alphabet(v)
    base = LZ.fix_thickness_signs([A[i] for i in unit['word']])
    waves = ((0.4861, False), (0.5876, True), (0.6563, False))
    water = S('plane', mat=['ideal', 1.33, 0.0])
    for obj, ft, mf, img in ((LZ.INF, 'angle', p['ang'], None), (p['od'][0], 'object_height', p['h'], None),
                             (LZ.INF, 'angle', 1e-9, water), (p['od'][1], 'object_height', 1e-9, water), (LZ.INF, 'angle', 0.0, None)):
        # (3rd/4th: image space immersed in water and a vanishingly small field - the spherical, Petzval and colour
        #  terms do not depend on the field)
        # aperture that fixes the marginal ray whatever the stop position (EPD at infinity, object NA for a finite object)
        apx = ('EPD', p['epd']) if math.isinf(obj) else ('objectNA', p['na'])
        S14 = []
        for stop in range(len(base)):
            surfs = LZ.with_stop(base, stop)
            sp = LZ.spec(surfs, obj=obj, ap=apx, ftype=ft, fields=(0.0, mf), waves=waves, img=img)
            o = LZ.build(sp)
            part.states += 1
            det = dict(word=unit['word'], stop=stop, obj=obj, variant=v, max_field=mf, image_medium='water' if img else 'air')
            rows = prescription.rows(sp, lambda m, prev: LZ.ref_index(m, 0.5876, prev))
            if abcd.pupil_degenerate(rows):
                part.count('skipped-telecentric-pupil')
                continue
            # (5th configuration: the only field is the axial one - the Lagrange invariant is exactly zero)
            res = check_state(part, o, sp, det, full=(stop == 0), cond_extra=(',axial-field-only' if mf == 0.0 else ''))
            if res:
                S14.append((stop, res[0]['S'][0], res[0]['S'][3], res[1]))
            if res and stop in (0, len(base) - 1):
                # history on the same lens object: the aperture, then the field, are edited (no radius / thickness / index
                # changes in between) and every aberration query is asked again
                import copy as _copy
                sp_h = _copy.deepcopy(sp)
                sp_h['ap'] = [apx[0], 0.6 * apx[1]]
                o.set_aperture(apx[0], 0.6 * apx[1])
                part.transitions += 1
                check_state(part, o, sp_h, dict(det, after='set_aperture x0.6'), full=False, cond_extra=(',axial-field-only' if mf == 0.0 else ''))
                sp_h['fields'] = list(sp_h['fields']) + [[1.3 * mf, 0.0, 0.0]]
                o.add_field(y=1.3 * mf)
                part.transitions += 1
                check_state(part, o, sp_h, dict(det, after='set_aperture x0.6, add_field x1.3'), full=False, cond_extra=(',axial-field-only' if mf == 0.0 else ''))
        # S_I and S_IV do not depend on where the stop is
        if len(S14) > 1:
            part.count('cmp:stop-shift')
            s1 = np.array([a[1] for a in S14])
            s4 = np.array([a[2] for a in S14])
            for nm, arrv in (('S_I', s1), ('S_IV', s4)):
                sc = max(1e-12, float(np.max(np.abs(arrv))))
                if np.max(np.abs(arrv - arrv[0])) > TOL * sc:
                    part.violation(PID, f'stop-shift-invariance-{nm}', 'Aberrations.seidels', S14[0][3],
                                   dict(word=unit['word'], obj=obj, variant=v), observed=arrv, expected='one value', tol=TOL)
    # ---- small-aperture limit: sum TSC predicts the real marginal transverse error at the paraxial image -------------
    surfs = LZ.with_stop(base, 0)
    sp0 = LZ.spec(surfs, obj=LZ.INF, ap=('EPD', p['epd']), ftype='angle', fields=(0.0, p['ang']), waves=waves)
    # image surface immersed in the last medium, so that it can be slid to the paraxial focus without refraction
    from vmc.props.c07 import medium_after
    sp0['img'] = S('plane', mat=medium_after(sp0, len(surfs) - 1))
    rows = prescription.rows(sp0, lambda m, prev: LZ.ref_index(m, 0.5876, prev))
    card = abcd.cardinal(rows)
    if abs(card['C']) > 1e-6 and math.isfinite(card['F2']) and abs(card['f2']) < 2e3:
        # move the image surface to the paraxial focus of the marginal ray
        sp0['surfs'][-1]['t'] = sp0['surfs'][-1]['t'] + card['F2']
        nm_ = sum(1 for s_ in sp0['surfs'] if s_['mat'] == 'mirror')
        tsign = -1.0 if nm_ % 2 else 1.0
        if sp0['surfs'][-1]['t'] * tsign > 0.5:
            o = LZ.build(sp0)
            part.states += 1
            tsc = float(np.sum(np.asarray(o.aberrations.TSC(), float)))
            eps = [0.5 * 2.0 ** (-k) for k in range(6)]
            obs = []
            for e in eps:
                r = o.trace_generic(0.0, 0.0, 0.0, e, 0.5876)
                part.transitions += 1
                obs.append(float(r.y[0]) / e ** 3)
            obs = np.array(obs)
            part.evals += 1
            has_mirror = nm_ > 0
            cm = 'has_mirror' if has_mirror else 'refractive'
            if np.all(np.isfinite(obs)) and abs(tsc) > 1e-9:
                err = np.abs(obs - tsc)
                part.count('cmp:real-ray-limit')
                # err = O(eps^2): ratio of successive errors -> 4; accept when the smallest-eps error is small vs the first
                if not (err[-1] <= 4.0 * err[0] * (eps[-1] / eps[0]) ** 1.8 + 1e-7 * abs(tsc)):
                    part.violation(PID, 'TSC-predicts-real-marginal-error', 'Aberrations.TSC', cm,
                                   dict(word=unit['word'], variant=v), observed=dict(real_over_eps3=obs.tolist()),
                                   expected=tsc, tol=1.8)
    part.sample(dict(word=unit['word']))
    return part


def nontrivial_guard(total, tier):
    if total.counters.get('nontrivial', 0) < 0.5 * max(1, total.counters.get('cmp:TSC', 0)):
        return 'spherical term is zero in most states'
    return None
