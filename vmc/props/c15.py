"""C15 - tolerancing reports true perturbed performance and restores the nominal lens.

History LTS over {SensitivityAnalysis.run, MonteCarlo.run(n), reset} on tolerancing set-ups drawn from a menu
(lens x operand set x perturbation set over every variable type x sampler kind x compensator); fault sequences: every
placement of ray-failure trials in a 3-step sweep. Oracle: every result row is re-derived on a freshly built nominal lens
from the *recorded* perturbation (and compensator) values with independently evaluated operands; equal seeds give equal
tables; the canonical lens state after run()/reset() equals the nominal one.
"""
import itertools
import math

import numpy as np

from vmc import canon
from vmc import lens as LZ
from vmc.core import Part
from vmc.lens import S, V

PID = 'C15'
W = 0.5876
META = dict(
    rule='unit = one tolerancing set-up with one history word; evaluation = one result row re-derived on a fresh nominal lens; '
         'non-trivial = a perturbed row whose operand differs from nominal; distinct = rounded rows',
    exhaustive=True,
    bounds=dict(quick='2 lenses x 3 operand sets x 7 perturbation sets (all variable types) x sampler kinds {scalar, range(3), normal, '
                      'uniform; seeds 0, 7} x {no compensator, image-distance compensator} x 6 history words; all 8 failure placements',
                thorough='4 numeric variants, Monte-Carlo runs of 1..4 trials'),
    tolerances=dict(row='1e-9 relative (no compensator), 1e-6 (with re-run compensation)', state='canonical state, 12 significant digits'),
    assumptions=['operands recomputed through the public tracing/paraxial API', 'np.random global state is the random source of DistributionSampler'],
)


def lens_specs(v):
    p = V(v)
    R = 1.2 * p['R']
    g = ['ideal', 1.5168, 0.0]
    singlet = [S('conic', R=R, k=-0.3, mat=g, t=5.0, stop=True), S('sphere', R=-R, mat='air', t=1.55 * R)]
    asp = [S('asph', R=R, k=0.0, coeffs=[1e-6, 0.0], mat=g, t=6.0, stop=True), S('plane', mat='air', t=4.0), S('sphere', R=-2 * R, mat=g, t=3.0),
           S('sphere', R=-1.1 * R, mat='air', t=1.2 * R)]
    # xy-polynomial and Chebyshev surfaces with coefficient arrays that are not symmetric (c[i][j] != c[j][i])
    free = [S('poly', R=2 * R, k=0.0, coeffs=[[0.0, 1e-3, 2e-4], [2e-3, 1e-4, 0.0], [5e-4, 0.0, 0.0]], mat=g, t=5.0, stop=True),
            S('cheb', R=-3 * R, k=0.0, coeffs=[[0.0, 0.02, 0.004], [0.03, 0.005, 0.0]], norm=[150.0, 120.0], mat='air', t=1.4 * R)]
    pk = LZ.spec([S('sphere', R=R, mat=g, t=5.0, stop=True), S('sphere', R=-R, mat='air', t=1.55 * R)], obj=LZ.INF, ap=('EPD', p['epd']), ftype='angle',
                 fields=(0.0, p['ang']), waves=((W, True),))
    pk['c15_pickup'] = (1, 'radius', 2, -1.0, 0.0)          # equi-convex: R2 = -R1
    pk['c15_solve'] = ('marginal_ray_height', 3, 0.0)        # image at the paraxial focus
    return dict(pickup=pk, freeform=LZ.spec(free, obj=LZ.INF, ap=('EPD', p['epd']), ftype='angle', fields=(0.0, p['ang']), waves=((W, True),)),
                singlet=LZ.spec(singlet, obj=LZ.INF, ap=('EPD', p['epd']), ftype='angle', fields=(0.0, p['ang']), waves=((W, True),)),
                asphere4=LZ.spec(asp, obj=p['od'][0] * 2, ap=('EPD', p['epd']), ftype='object_height', fields=(0.0, p['h']), waves=((W, True),)))


OPERANDS = {
    'f2': [('f2', {})],
    'f2+spot': [('f2', {}), ('rms_spot_size', dict(surface_number=-1, Hx=0.0, Hy=1.0, num_rays=2, wavelength=W, distribution='hexapolar'))],
    'intercept': [('real_y_intercept', dict(surface_number=-1, Hx=0.0, Hy=1.0, Px=0.0, Py=0.5, wavelength=W))],
}


def pert_sets(lens):
    """name -> list of (variable type, kwargs, nominal, (lo, hi))"""
    if lens == 'singlet':
        return {
            'radius': [('radius', dict(surface_number=1), None, (0.97, 1.03, 'rel'))],
            'radius+thickness': [('radius', dict(surface_number=2), None, (0.98, 1.02, 'rel')), ('thickness', dict(surface_number=1), None, (4.8, 5.3, 'abs'))],
            'conic': [('conic', dict(surface_number=1), None, (-0.5, 0.1, 'abs'))],
            'tilt+decenter': [('tilt', dict(surface_number=2, axis='x'), None, (-0.01, 0.02, 'abs')),
                              ('decenter', dict(surface_number=2, axis='y'), None, (-0.1, 0.2, 'abs'))],
            'index': [('index', dict(surface_number=1, wavelength=W), None, (1.50, 1.53, 'abs'))],
            # perturbations whose merit stays below the compensator's convergence tolerance (1e-5)
            'tiny': [('thickness', dict(surface_number=1), None, (4.988, 5.012, 'abs')), ('radius', dict(surface_number=1), None, (0.99995, 1.00005, 'rel'))],
            'three': [('radius', dict(surface_number=1), None, (0.99, 1.02, 'rel')), ('radius', dict(surface_number=2), None, (0.98, 1.01, 'rel')),
                      ('thickness', dict(surface_number=1), None, (4.9, 5.2, 'abs'))],
        }
    if lens == 'pickup':
        return {'source-radius': [('radius', dict(surface_number=1), None, (0.96, 1.04, 'rel'))],
                'thickness': [('thickness', dict(surface_number=1), None, (4.6, 5.5, 'abs'))]}
    if lens == 'freeform':
        return {
            'polynomial-coeff': [('polynomial_coeff', dict(surface_number=1, coeff_index=[2, 0]), None, (2e-4, 9e-4, 'abs')),
                                 ('radius', dict(surface_number=2), None, (0.98, 1.02, 'rel'))],
            'chebyshev-coeff': [('chebyshev_coeff', dict(surface_number=2, coeff_index=[0, 2]), None, (0.002, 0.007, 'abs')),
                                ('polynomial_coeff', dict(surface_number=1, coeff_index=[0, 1]), None, (5e-4, 2e-3, 'abs'))],
        }
    return {
        'asphere-coeff': [('asphere_coeff', dict(surface_number=1, coeff_number=0), None, (-2e-6, 3e-6, 'abs')),
                          ('decenter', dict(surface_number=3, axis='x'), None, (-0.05, 0.05, 'abs'))],
        'thickness-gap': [('thickness', dict(surface_number=2), None, (3.8, 4.3, 'abs')), ('tilt', dict(surface_number=3, axis='y'), None, (-0.005, 0.01, 'abs'))],
    }


def units(tier, variant):
    out = []
    words = [['sa'], ['sa', 'sa'], ['mc2'], ['mc2', 'reset'], ['mc2', 'mc2'], ['sa', 'reset', 'mc3']]
    for lens in lens_specs(variant):
        for pname in pert_sets(lens):
            for oname in OPERANDS:
                for comp in (False, True):
                    for sk in ('range', 'normal-seed7', 'uniform-seed0', 'scalar'):
                        for wd in words:
                            if sk != 'range' and any(a.startswith('sa') for a in wd):
                                continue        # the sensitivity run only accepts range samplers (it raises by design)
                            if comp and (oname != 'f2+spot' or len(wd) > 2):
                                continue
                            out.append(dict(kind='history', lens=lens, perts=pname, operands=oname, comp=comp, sampler=sk, word=wd, variant=variant))
    for pat in itertools.product([0, 1], repeat=3):
        out.append(dict(kind='faults', pattern=list(pat), run='sa', variant=variant))
        out.append(dict(kind='faults', pattern=list(pat), run='mc', variant=variant))
    out.append(dict(kind='plane-radius', variant=variant))
    return out


def build_lens(spec):
    """The nominal lens of a set-up: built from the spec, plus the pickup / solve the spec names."""
    o = LZ.build(spec)
    if spec.get('c15_pickup'):
        src, attr, dst, sc, off = spec['c15_pickup']
        o.pickups.add(src, attr, dst, scale=sc, offset=off)
    if spec.get('c15_solve'):
        o.solves.add(*spec['c15_solve'])
    return o


def operand_value(o, ot, data):
    if ot == 'f2':
        return float(o.paraxial.f2())
    if ot == 'rms_spot_size':
        o.trace(data['Hx'], data['Hy'], data['wavelength'], data['num_rays'], data['distribution'])
        x = np.asarray(o.surface_group.x[data['surface_number']], float)
        y = np.asarray(o.surface_group.y[data['surface_number']], float)
        return math.sqrt(float(np.mean((x - x.mean()) ** 2 + (y - y.mean()) ** 2)))
    if ot == 'real_y_intercept':
        o.trace_generic(data['Hx'], data['Hy'], data['Px'], data['Py'], data['wavelength'])
        return float(o.surface_group.y[data['surface_number'], 0])
    raise ValueError(ot)


def nominal_of(o, vt, kw):
    from vmc.props.c14 import physical_value
    return physical_value(o, vt, kw)


def make_sampler(kind, lo, hi):
    from optiland.tolerancing.perturbation import ScalarSampler, RangeSampler, DistributionSampler
    if kind == 'range':
        return RangeSampler(lo, hi, 3)
    if kind == 'scalar':
        return ScalarSampler(0.5 * (lo + hi) + 0.31 * (hi - lo))
    if kind.startswith('normal'):
        return DistributionSampler('normal', seed=int(kind.split('seed')[1]), loc=0.5 * (lo + hi), scale=(hi - lo) / 6)
    if kind.startswith('uniform'):
        return DistributionSampler('uniform', seed=int(kind.split('seed')[1]), low=lo, high=hi)
    raise ValueError(kind)


def setup(unit, spec):
    from optiland.tolerancing.core import Tolerancing
    o = build_lens(spec)
    tol = Tolerancing(o)
    for ot, data in OPERANDS[unit['operands']]:
        d = dict(data)
        d['optic'] = o
        tol.add_operand(ot, d)
    plist = []
    for vt, kw, _, (lo, hi, mode) in pert_sets(unit['lens'])[unit['perts']]:
        nom = nominal_of(o, vt, kw)
        if mode == 'rel':
            lo_, hi_ = sorted((nom * lo, nom * hi))
        else:
            lo_, hi_ = lo, hi
        tol.add_perturbation(vt, make_sampler(unit['sampler'], lo_, hi_), **kw)
        plist.append((vt, kw, nom))
    if unit['comp']:
        tol.add_compensator('thickness', surface_number=len(spec['surfs']))
    return o, tol, plist


def rederive_row(unit, spec, plist, row_values, comp_value):
    """Fresh nominal lens + the recorded perturbation values (+ the recorded compensator value) -> operand values."""
    from optiland.optimization.variable import Variable
    o = build_lens(spec)
    for (vt, kw, nom), val in zip(plist, row_values):
        if val is None:
            continue
        Variable(o, vt, apply_scaling=False, **kw).update(val)
    o.update()                  # the fresh copy is a lens: its pickups and solves follow the applied values
    if comp_value is not None:
        Variable(o, 'thickness', surface_number=len(spec['surfs'])).update(comp_value)
    return [operand_value(o, ot, data) for ot, data in OPERANDS[unit['operands']]]


def rederive_row_compensated(unit, spec, plist, row_values):
    """Fresh nominal lens, the recorded perturbation values, then the same compensation run directly (the compensator
    optimiser with the run's operands, targets taken on the nominal lens) -> (operand values, compensator value)."""
    from optiland.optimization.variable import Variable
    from optiland.tolerancing.core import Tolerancing
    o = build_lens(spec)
    tol = Tolerancing(o)
    for ot, data in OPERANDS[unit['operands']]:
        tol.add_operand(ot, dict(data, optic=o))
    tol.add_compensator('thickness', surface_number=len(spec['surfs']))
    for (vt, kw, nom), val in zip(plist, row_values):
        if val is not None:
            Variable(o, vt, apply_scaling=False, **kw).update(val)
    o.update()
    tol.compensator.operands = tol.operands
    tol.compensator.run()
    cv = float(np.ravel(tol.compensator.variables[0].value)[0])
    return [operand_value(o, ot, data) for ot, data in OPERANDS[unit['operands']]], cv


def check_table(part, unit, spec, plist, df, runkind, det, cond):
    names = [f'{i}: {ot.replace("_", " ")}' for i, (ot, _) in enumerate(OPERANDS[unit['operands']])]
    nominal_ops = rederive_row(unit, spec, plist, [None] * len(plist), None)
    for ri in range(len(df)):
        row = df.iloc[ri]
        part.evals += 1
        if runkind == 'sa':
            # one perturbation at a time: identify which one by its recorded type string, others at nominal
            vals = [None] * len(plist)
            from optiland.optimization.variable import Variable
            o_tmp = build_lens(spec)
            labels = [str(Variable(o_tmp, vt, apply_scaling=False, **kw).variable) for vt, kw, _ in plist]
            if row['perturbation_type'] not in labels:
                part.violation(PID, 'row-identifies-its-perturbation', 'SensitivityAnalysis.run', cond, dict(det, row=ri),
                               observed=row['perturbation_type'], expected=labels)
                continue
            vals[labels.index(row['perturbation_type'])] = float(row['perturbation_value'])
        else:
            from optiland.optimization.variable import Variable
            o_tmp = build_lens(spec)
            labels = [str(Variable(o_tmp, vt, apply_scaling=False, **kw).variable) for vt, kw, _ in plist]
            vals = [float(row[lb]) for lb in labels]
        comp_cols = [c_ for c_ in df.columns if str(c_).startswith('C0')]
        comp_val = float(row[comp_cols[0]]) if comp_cols else None
        exp = rederive_row(unit, spec, plist, vals, comp_val)
        got = [float(row[nm]) for nm in names]
        tolr = 1e-9
        for nm, g, e in zip(names, got, exp):
            part.count('cmp:row')
            same = (math.isnan(g) and math.isnan(e)) or abs(g - e) <= tolr * max(1.0, abs(e))
            if not same:
                part.violation(PID, 'row-equals-fresh-lens-with-recorded-perturbation', f'{"SensitivityAnalysis" if runkind == "sa" else "MonteCarlo"}.run',
                               cond, dict(det, row=ri, operand=nm, perturbation_values=vals, compensator=comp_val), observed=g, expected=e, tol=tolr)
        if comp_val is not None:
            # "... followed by the same compensation": run the compensation again on the fresh copy
            exp2, cv2 = rederive_row_compensated(unit, spec, plist, vals)
            part.count('cmp:row-recompensated')
            for nm, g, e in zip(names + ['compensator value'], got + [comp_val], exp2 + [cv2]):
                same = (math.isnan(g) and math.isnan(e)) or abs(g - e) <= 1e-6 * max(1.0, abs(e))
                if not same:
                    part.violation(PID, 'row-equals-fresh-lens-with-recorded-perturbation-and-same-compensation',
                                   f'{"SensitivityAnalysis" if runkind == "sa" else "MonteCarlo"}.run', cond,
                                   dict(det, row=ri, quantity=nm, perturbation_values=vals), observed=g, expected=e, tol=1e-6)
        if any(abs(e - n_) > 1e-9 * max(1.0, abs(n_)) for e, n_ in zip(exp, nominal_ops) if math.isfinite(e)):
            part.count('nontrivial')
        part.outcome(unit.get('lens'), unit.get('perts'), unit.get('operands'), runkind, ri, [round(g, 9) if math.isfinite(g) else 'nan' for g in got])
        # a perturbation equal to nominal reproduces nominal (rows where the recorded values are nominal)
        if all(v_ is None or abs(v_ - pl[2]) <= 1e-12 * max(1.0, abs(pl[2])) for v_, pl in zip(vals, plist)) and comp_val is None:
            for nm, g, n_ in zip(names, got, nominal_ops):
                if abs(g - n_) > 1e-9 * max(1.0, abs(n_)):
                    part.violation(PID, 'nominal-perturbation-reproduces-nominal', 'run', cond, dict(det, row=ri, operand=nm), observed=g, expected=n_, tol=1e-9)


def run_history(part, unit):
    from optiland.tolerancing.sensitivity_analysis import SensitivityAnalysis
    from optiland.tolerancing.monte_carlo import MonteCarlo
    spec = lens_specs(unit['variant'])[unit['lens']]
    np.random.seed(4242)
    o, tol, plist = setup(unit, spec)
    part.states += 1
    nominal = canon.optic(o)
    cond = f"sampler={unit['sampler'].split('-')[0]},compensator={unit['comp']}"
    base = dict(lens=unit['lens'], perts=unit['perts'], operands=unit['operands'], comp=unit['comp'], sampler=unit['sampler'], word=unit['word'],
                variant=unit['variant'])
    sa = mc = None
    tables = []
    for step, act in enumerate(unit['word']):
        det = dict(base, step=step)
        if act == 'sa':
            sa = sa or SensitivityAnalysis(tol)
            sa.run()
            part.transitions += 1
            df = sa.get_results()
            check_table(part, unit, spec, plist, df, 'sa', det, cond)
            tables.append(('sa', df.copy()))
            site = 'SensitivityAnalysis.run'
        elif act.startswith('mc'):
            mc = mc or MonteCarlo(tol)
            n = int(act[2:])
            mc.run(n)
            part.transitions += 1
            df = mc.get_results()
            if len(df) != n:
                part.violation(PID, 'one-row-per-trial', 'MonteCarlo.run', cond, det, observed=len(df), expected=n)
            check_table(part, unit, spec, plist, df, 'mc', det, cond)
            tables.append(('mc', df.copy()))
            site = 'MonteCarlo.run'
        else:
            tol.reset()
            part.transitions += 1
            site = 'Tolerancing.reset'
        # the lens is back at its nominal prescription when the run completes / after reset()
        part.count('cmp:restored')
        now = canon.optic(o)
        if now != nominal:
            part.violation(PID, 'lens-restored-to-nominal', site, cond, det, observed=canon.diff(nominal, now), expected='nominal prescription')
    # ---- seeded samplers make a run reproducible: the same set-up built again (other global RNG use in between) ----------------
    if unit['sampler'] != 'scalar' and unit['word'] in (['mc2'], ['sa']):
        np.random.seed(99)
        np.random.rand(7)
        o2, tol2, _ = setup(unit, spec)
        if unit['sampler'] != 'range':
            # ... and an unrelated seeded sampler is created before this one is used
            from optiland.tolerancing.perturbation import DistributionSampler
            DistributionSampler('normal', seed=12345, loc=0.0, scale=1.0)
        if unit['word'] == ['mc2']:
            r2 = MonteCarlo(tol2)
            r2.run(2)
        else:
            r2 = SensitivityAnalysis(tol2)
            r2.run()
        part.transitions += 1
        part.evals += 1
        a, b = tables[0][1], r2.get_results()
        part.count('cmp:reproducible')
        same = list(a.columns) == list(b.columns) and a.shape == b.shape and all(
            (str(x) == str(y)) or (isinstance(x, float) and isinstance(y, float) and ((math.isnan(x) and math.isnan(y)) or x == y))
            for x, y in zip(a.to_numpy().ravel().tolist(), b.to_numpy().ravel().tolist()))
        if not same:
            part.violation(PID, 'seeded-run-reproducible', 'run', cond, dict(base, seed=unit['sampler']), observed=b.to_numpy().ravel().tolist()[:6],
                           expected=a.to_numpy().ravel().tolist()[:6])
    part.sample(base)


def run_faults(part, unit):
    """A 3-trial sweep in which the trials marked 1 make rays miss (operand undefined): the other rows are still the true
    values, the failing rows are undefined (NaN), and the lens is restored."""
    from optiland.tolerancing.core import Tolerancing
    from optiland.tolerancing.perturbation import RangeSampler, BaseSampler
    from optiland.tolerancing.sensitivity_analysis import SensitivityAnalysis
    from optiland.tolerancing.monte_carlo import MonteCarlo
    p = V(unit['variant'])
    spec = lens_specs(unit['variant'])['singlet']
    R = spec['surfs'][0]['R']
    good = [0.98 * R, 1.0 * R, 1.03 * R]
    bad = 0.4 * p['epd']          # radius smaller than the beam: rim rays miss the surface
    values = [bad if f else g for f, g in zip(unit['pattern'], good)]
    o = build_lens(spec)
    tol = Tolerancing(o)
    data = dict(surface_number=-1, Hx=0.0, Hy=0.0, num_rays=3, wavelength=W, distribution='hexapolar', optic=o)
    tol.add_operand('rms_spot_size', data)
    tol.add_operand('f2', dict(optic=o))
    nominal = canon.optic(o)
    if unit['run'] == 'sa':
        sm = RangeSampler(good[0], good[2], 3)
        sm.values = np.array(values)      # the sweep values are a public attribute of the sampler
        tol.add_perturbation('radius', sm, surface_number=1)
        run = SensitivityAnalysis(tol)
        run.run()
        col = 'perturbation_value'
    else:
        class Cycle(BaseSampler):
            def __init__(self, vals):
                self.vals, self.i = list(vals), 0

            def sample(self):
                v_ = self.vals[self.i % len(self.vals)]
                self.i += 1
                return v_
        tol.add_perturbation('radius', Cycle(values), surface_number=1)
        run = MonteCarlo(tol)
        run.run(3)
        col = 'Radius of Curvature, Surface 1'
    part.states += 1
    part.transitions += 1
    df = run.get_results()
    cond = f"run={unit['run']}"
    det = dict(pattern=unit['pattern'], run=unit['run'], variant=unit['variant'])
    for ri in range(len(df)):
        part.evals += 1
        val = float(df.iloc[ri][col])
        ofresh = build_lens(spec)
        ofresh.set_radius(val, 1)
        exp_f2 = operand_value(ofresh, 'f2', {})
        exp_sp = operand_value(ofresh, 'rms_spot_size', dict(data))
        got_sp, got_f2 = float(df.iloc[ri]['0: rms spot size']), float(df.iloc[ri]['1: f2'])
        for nm, g, e in (('rms spot size', got_sp, exp_sp), ('f2', got_f2, exp_f2)):
            part.count('cmp:fault-row')
            same = (math.isnan(g) and math.isnan(e)) or abs(g - e) <= 1e-9 * max(1.0, abs(e))
            if not same:
                part.violation(PID, 'row-equals-fresh-lens-with-recorded-perturbation', f'{unit["run"]}.run', cond + ',with-failing-trials',
                               dict(det, row=ri, operand=nm), observed=g, expected=e, tol=1e-9)
        part.outcome(unit['run'], tuple(unit['pattern']), ri, 'nan' if math.isnan(got_sp) else round(got_sp, 9))
    now = canon.optic(o)
    if now != nominal:
        part.violation(PID, 'lens-restored-to-nominal', f'{unit["run"]}.run', cond + ',with-failing-trials', det, observed=canon.diff(nominal, now),
                       expected='nominal prescription')
    if any(unit['pattern']):
        part.count('nontrivial')
    part.sample(det)


def run_plane_radius(part, unit):
    """Perturbing the radius of a *plane* surface and resetting."""
    from optiland.tolerancing.core import Tolerancing
    from optiland.tolerancing.perturbation import RangeSampler
    from optiland.tolerancing.sensitivity_analysis import SensitivityAnalysis
    spec = lens_specs(unit['variant'])['asphere4']
    o = build_lens(spec)
    nominal = canon.optic(o)
    tol = Tolerancing(o)
    tol.add_operand('f2', dict(optic=o))
    tol.add_perturbation('radius', RangeSampler(500.0, 2000.0, 3), surface_number=2)
    sa = SensitivityAnalysis(tol)
    sa.run()
    part.states += 1
    part.transitions += 1
    part.evals += 1
    now = canon.optic(o)
    det = dict(lens='asphere4', perturbed='radius of plane surface 2', variant=unit['variant'])
    if now != nominal:
        part.violation(PID, 'lens-restored-to-nominal', 'SensitivityAnalysis.run', 'perturbed-radius-of-a-plane-surface', det,
                       observed=canon.diff(nominal, now), expected='nominal prescription')
    o.trace_generic(0.0, 0.0, 0.0, 0.5, W)
    y = float(o.surface_group.y[-1, 0])
    ofresh = build_lens(spec)
    ofresh.trace_generic(0.0, 0.0, 0.0, 0.5, W)
    y0 = float(ofresh.surface_group.y[-1, 0])
    if not (abs(y - y0) <= 1e-9 * max(1.0, abs(y0))):
        part.violation(PID, 'lens-traces-as-nominal-after-run', 'SensitivityAnalysis.run', 'perturbed-radius-of-a-plane-surface', det, observed=y, expected=y0)
    part.outcome('plane-radius', y)
    part.sample(det)


def run_unit(unit):
    part = Part(unit)
    dict(history=run_history, faults=run_faults)[unit['kind']](part, unit) if unit['kind'] != 'plane-radius' else run_plane_radius(part, unit)
    return part


def nontrivial_guard(total, tier):
    if total.counters.get('nontrivial', 0) < 0.3 * max(1, total.evals):
        return 'few perturbed rows differ from nominal'
    return None
