"""C11 - PSF, Strehl ratio and MTF are correctly normalised transforms of the pupil.

States: a small lens menu (perfect paraboloid, singlet in focus / defocused, doublet off axis, finite-conjugate relay,
singlet with a clipping aperture) x field menu x the full sampling lattice (pupil sampling x grid size, both parities of
grid - sampling). Oracle: direct DFT identities (vmc.ref.fourier) on the pupil re-sampled by the geometric OPD oracle of C09.
"""
import math

import numpy as np

from vmc import lens as LZ
from vmc.core import Part
from vmc.lens import S, V
from vmc.ref import abcd, prescription
from vmc.props import c09

PID = 'C11'
META = dict(
    rule='unit = (lens, field, num_rays, grid) cell of the lattice; evaluation = one FFTPSF / FFTMTF / GeometricMTF call compared '
         'pixel by pixel / sample by sample; non-trivial = aberrated pupil (Strehl < 0.99) or clipped pupil; distinct = rounded Strehl',
    exhaustive=True,
    bounds=dict(quick='6 lenses x fields {0,1} x (num_rays, grid) in {(16,64),(17,64),(32,65),(33,65),(32,128),(33,128),(64,256)}; '
                      '3 dispersive lenses with 3 wavelengths x primary in each position x analysed wavelength x fields {0,1} x '
                      '{(32,128),(33,64)}: FFTPSF and FFTMTF at primary and non-primary wavelengths',
                thorough='adds (64,1024), (128,512), (17,65), (16,65) and 4 numeric variants of the lens menu; polychromatic family also at (17,65), (64,256)'),
    tolerances=dict(pixel='1e-9 x 100', energy='1e-9 relative', mtf_sampling='2/num_rays', geometric_mtf='0.01 + 1.5/sqrt(N) x (freq x bin width / 0.25), judged only while freq x bin width <= 0.25'),
    assumptions=['pupil phase from the geometric OPD oracle (vmc.ref.opd)', 'Airy MTF (2/pi)(phi - cos phi sin phi)',
                 'working F-number 1/(2 n sin U) from the real marginal ray for the cut-off'],
)


def lens_menu(v):
    p = V(v)
    g1 = ['ideal', p['n1'], 0.0]
    R = p['R']
    single = [S('sphere', R=R, mat='N-BK7', t=4.0, stop=True), S('sphere', R=-R, mat='air', t=0.0)]
    menu = {}
    menu['paraboloid'] = dict(surfs=[S('conic', R=-200.0, k=-1.0, mat='mirror', t=-100.0, stop=True)], obj=LZ.INF, ap=('EPD', 20.0),
                              ftype='angle', fields=(0.0, 0.3), focus=False)
    menu['singlet'] = dict(surfs=single, obj=LZ.INF, ap=('EPD', p['epd']), ftype='angle', fields=(0.0, p['ang']), focus=True, off=0.0)
    menu['singlet-defocus'] = dict(surfs=single, obj=LZ.INF, ap=('EPD', p['epd']), ftype='angle', fields=(0.0, p['ang']), focus=True, off=0.25)
    menu['doublet'] = dict(surfs=[S('sphere', R=1.5 * R, mat='N-BK7', t=5.0, stop=True), S('sphere', R=-1.2 * R, mat='SF11', t=2.0),
                                  S('sphere', R=-4.0 * R, mat='air', t=0.0)], obj=LZ.INF, ap=('imageFNO', 8.0), ftype='angle',
                           fields=(0.0, 3.0), focus=True, off=0.0)
    menu['relay'] = dict(surfs=[S('sphere', R=R, mat=g1, t=5.0), S('sphere', R=-R, mat='air', t=6.0),
                                S('plane', mat='air', t=4.0, stop=True), S('sphere', R=1.3 * R, mat=g1, t=5.0),
                                S('sphere', R=-1.3 * R, mat='air', t=0.0)], obj=p['od'][0], ap=('objectNA', 0.03), ftype='object_height',
                         fields=(0.0, p['h']), focus=True, off=0.0)
    clip = [S('sphere', R=R, mat='N-BK7', t=4.0, stop=True), S('sphere', R=-R, mat='air', t=0.0, aperture=[0.36 * p['epd']])]
    menu['singlet-clipped'] = dict(surfs=clip, obj=LZ.INF, ap=('EPD', p['epd']), ftype='angle', fields=(0.0, p['ang']), focus=True, off=0.0)
    return menu


POLY_LENSES = ('singlet', 'doublet', 'singlet-clipped')
POLY_WAVES = (0.4861, 0.5876, 0.6563)
POLY_LATTICE_Q = [(32, 128), (33, 64)]
POLY_LATTICE_T = POLY_LATTICE_Q + [(17, 65), (64, 256)]
LATTICE_Q = [(16, 64), (17, 64), (32, 65), (33, 65), (32, 128), (33, 128), (64, 256)]
LATTICE_T = LATTICE_Q + [(64, 1024), (128, 512), (17, 65), (16, 65), (96, 256)]


def units(tier, variant):
    out = []
    for name in lens_menu(variant):
        for fi in (0, 1):
            for (nr, g) in (LATTICE_Q if tier == 'quick' else LATTICE_T):
                out.append(dict(lens=name, field=fi, num_rays=nr, grid=g, variant=variant))
        out.append(dict(lens=name, field=0, kind='mtf', variant=variant))
        out.append(dict(lens=name, field=1, kind='mtf', variant=variant))
    # polychromatic dispersive lenses analysed away from the primary wavelength (primary first / in the middle / last)
    for name in POLY_LENSES:
        for pi in (0, 1, 2):
            for wq in POLY_WAVES:
                for fi in (0, 1):
                    for (nr, g) in (POLY_LATTICE_Q if tier == 'quick' else POLY_LATTICE_T):
                        out.append(dict(lens=name, field=fi, num_rays=nr, grid=g, variant=variant, primary=pi, w=wq))
    return out


def build_lens(name, v, primary=None):
    m = lens_menu(v)[name]
    waves = ((0.5876, True),)
    if primary is not None:
        waves = tuple((wq, i == primary) for i, wq in enumerate(POLY_WAVES))
    surfs = LZ.fix_thickness_signs(m['surfs'])
    sp = LZ.spec(surfs, obj=m['obj'], ap=m['ap'], ftype=m['ftype'], fields=m['fields'], waves=waves)
    if m.get('focus'):
        rows = prescription.rows(sp, lambda mm, prev: LZ.ref_index(mm, 0.5876, prev))
        ys, us, _ = abcd.marginal(rows, m['ap'])
        sp['surfs'][-1]['t'] = sp['surfs'][-1]['t'] + (-ys[-1] / us[-2]) + m.get('off', 0.0)
    return sp, LZ.build(sp)


def oracle_pupil(o, sp, Hy, w, n, w_primary=None):
    """Complex pupil on the n x n uniform grid from the geometric OPD oracle and the traced intensities."""
    rows = prescription.rows(sp, lambda mm, prev: LZ.ref_index(mm, w, prev))
    # the library's exit pupil is a primary-wavelength quantity (as in C09)
    wp = w if w_primary is None else w_primary
    xpl = abcd.XPL(prescription.rows(sp, lambda mm, prev: LZ.ref_index(mm, wp, prev)))
    g = np.linspace(-1, 1, n)
    X, Y = np.meshgrid(g, g)
    x, y = X.ravel(), Y.ravel()
    inside = x * x + y * y <= 1
    opd = c09.geometric_opd(o, rows, Hy, x[inside].copy(), y[inside].copy(), w, xpl)
    inten = np.asarray(o.surface_group.intensity[-1], float).copy()
    P = np.zeros(n * n, dtype=complex)
    amp = inten / np.mean(inten)
    P[inside] = amp * np.exp(2j * np.pi * opd)
    return P.reshape(n, n), inside.reshape(n, n), opd, inten


def pad_to(P, G):
    n = P.shape[0]
    lo = (G - n) // 2
    out = np.zeros((G, G), dtype=complex)
    out[lo:lo + n, lo:lo + n] = P
    return out


def working_fno(o, sp, Hy, w):
    """1 / (2 n' sin U') from a real marginal-type ray pair through the pupil edge (tangential)."""
    o.trace_generic(np.zeros(2), np.full(2, Hy), np.zeros(2), np.array([1.0, -1.0]), w)
    sg = o.surface_group
    d1 = np.array([sg.L[-1][0], sg.M[-1][0], sg.N[-1][0]])
    d2 = np.array([sg.L[-1][1], sg.M[-1][1], sg.N[-1][1]])
    cos2u = float(np.clip(np.dot(d1, d2), -1, 1))
    U = 0.5 * math.acos(cos2u)
    return 1.0 / (2.0 * math.sin(U))


def run_psf(part, unit):
    from optiland.psf import FFTPSF
    v = unit['variant']
    sp, o = build_lens(unit['lens'], v, unit.get('primary'))
    part.states += 1
    nr, G = unit['num_rays'], unit['grid']
    w = unit.get('w', 0.5876)
    Hy = [0.0, 1.0][unit['field']]
    parity = 'even' if (G - nr) % 2 == 0 else 'odd'
    cond = f'grid-minus-sampling={parity}'
    det = dict(lens=unit['lens'], Hy=Hy, num_rays=nr, grid=G, variant=v)
    w_primary = None
    if unit.get('primary') is not None:
        w_primary = POLY_WAVES[unit['primary']]
        cond += ',polychromatic,wavelength=' + ('primary' if w == w_primary else 'non-primary')
        det.update(wavelength=w, primary=w_primary)
        part.count('poly:primary' if w == w_primary else 'poly:non-primary')
    psf_obj = FFTPSF(o, (0.0, Hy), w, num_rays=nr, grid_size=G)
    part.transitions += 1
    part.evals += 1
    psf = np.asarray(psf_obj.psf, float)
    P, inside, opd, inten = oracle_pupil(o, sp, Hy, w, nr, w_primary)
    clipped = bool(np.any(inten == 0))
    if clipped:
        cond += ',clipped-pupil'
    if not np.all(np.isfinite(P)):
        part.count('skipped-missing-rays')
        return
    if np.min(psf) < -1e-9:
        part.violation(PID, 'psf-non-negative', 'FFTPSF.psf', cond, det, observed=float(np.min(psf)), expected='>= 0')
    # reference: 100 |DFT(padded pupil)|^2 / peak of the unaberrated pupil (same support, unit amplitude)
    F = np.fft.fftshift(np.fft.fft2(pad_to(P, G)))
    # "the unaberrated pupil peaks at 100": same amplitude, zero phase -> peak |sum |P||^2
    norm = float(np.sum(np.abs(P)) ** 2)
    ref = 100.0 * np.abs(F) ** 2 / norm
    if psf.shape != (G, G):
        part.violation(PID, 'psf-grid-shape', 'FFTPSF.psf', cond, det, observed=list(psf.shape), expected=[G, G])
    else:
        e = np.max(np.abs(psf - ref))
        part.count('cmp:psf-pixels')
        if e > 1e-7:
            i = np.unravel_index(np.argmax(np.abs(psf - ref)), psf.shape)
            part.violation(PID, 'psf-equals-dft-of-pupil', 'FFTPSF.psf', cond, dict(det, pixel=[int(i[0]), int(i[1])]),
                           observed=float(psf[i]), expected=float(ref[i]), tol=1e-7)
    # total energy is that of the amplitude alone (Parseval): independent of the aberration
    e_ref = 100.0 * G * G * float(np.sum(np.abs(P) ** 2)) / norm if psf.shape == (G, G) else None
    if e_ref is not None:
        part.count('cmp:energy')
        if abs(float(np.sum(psf)) - e_ref) > 1e-9 * e_ref:
            part.violation(PID, 'psf-energy-independent-of-aberration', 'FFTPSF.psf', cond, det, observed=float(np.sum(psf)),
                           expected=e_ref, tol=1e-9)
    # Strehl ratio: central value / 100 = |sum P|^2 / (sum |P|)^2 <= 1
    sr = float(psf_obj.strehl_ratio())
    sr_ref = float(np.abs(np.sum(P)) ** 2 / norm)
    part.count('cmp:strehl')
    if abs(sr - sr_ref) > 1e-9:
        part.violation(PID, 'strehl-is-central-value', 'FFTPSF.strehl_ratio', cond, det, observed=sr, expected=sr_ref, tol=1e-9)
    if sr > 1 + 1e-12:
        part.violation(PID, 'strehl-not-above-one', 'FFTPSF.strehl_ratio', cond, det, observed=sr, expected='<= 1')
    if sr_ref < 0.99 or clipped:
        part.count('nontrivial')
    # history on ONE object: view() (2d, 3d-log) then the same reads - the stored PSF is what was computed, not what was drawn
    if G <= 128 and psf.shape == (G, G):
        import matplotlib.pyplot as plt
        orig_show = plt.show
        plt.show = lambda *a, **k: None
        psf0 = psf.copy()
        for hist in (('view',), ('view', 'view-3d-log')):
            try:
                if hist[-1] == 'view':
                    psf_obj.view(num_points=min(32, G))
                else:
                    psf_obj.view('3d', True, num_points=min(32, G))
            finally:
                plt.close('all')
            part.transitions += 1
            part.evals += 1
            part.count('cmp:psf-after-view')
            psf1 = np.asarray(psf_obj.psf, float)
            sr1 = float(psf_obj.strehl_ratio())
            if psf1.shape != psf0.shape or not np.array_equal(psf1, psf0) or sr1 != sr:
                part.violation(PID, 'psf-and-strehl-unchanged-by-view', 'FFTPSF.view', cond, dict(det, history=list(hist)),
                               observed=[float(np.max(np.abs(psf1 - psf0))) if psf1.shape == psf0.shape else list(psf1.shape), sr1],
                               expected=[0.0, sr])
                break
        plt.show = orig_show
    part.outcome(unit['lens'], Hy, nr, G, w, round(sr_ref, 6))
    part.sample(det)
    if w_primary is not None:
        run_poly_mtf(part, unit, sp, o, P, w, w_primary, Hy, cond, det)


def run_poly_mtf(part, unit, sp, o, P, w, w_primary, Hy, cond, det):
    """FFT MTF of a dispersive polychromatic lens at the analysed wavelength: curves from the oracle pupil at that wavelength,
    cut-off from the reference working F-number at that wavelength."""
    from optiland.mtf import FFTMTF
    nr, G = unit['num_rays'], unit['grid']
    m = FFTMTF(o, fields=[(0.0, Hy)], wavelength=w, num_rays=nr, grid_size=G)
    part.transitions += 1
    part.evals += 1
    rows_p = prescription.rows(sp, lambda mm, prev: LZ.ref_index(mm, w_primary, prev))
    ys_, us_, _ = abcd.marginal(rows_p, tuple(sp['ap']))
    fno_p = 1.0 / (2.0 * rows_p[-1]['n_post'] * abs(us_[-1]))
    rows_w = prescription.rows(sp, lambda mm, prev: LZ.ref_index(mm, w, prev))
    ys_, us_, _ = abcd.marginal(rows_w, tuple(sp['ap']))
    fno_w = 1.0 / (2.0 * rows_w[-1]['n_post'] * abs(us_[-1]))
    # the library's working F-number is a primary-wavelength quantity; the two references differ by the (small) chromatic
    # change of focal length, which bounds what either reading of "working F-number" can claim
    cut_p, cut_w = 1.0 / (w * 1e-3 * fno_p), 1.0 / (w * 1e-3 * fno_w)
    lo, hi = min(cut_p, cut_w), max(cut_p, cut_w)
    part.count('cmp:cutoff')
    if not (lo * (1 - 1e-8) <= m.max_freq <= hi * (1 + 1e-8)):
        part.violation(PID, 'mtf-cutoff-is-1/(lambda x working F-number)', 'FFTMTF.max_freq', cond, det, observed=float(m.max_freq),
                       expected=[lo, hi], tol=1e-8)
    F = np.fft.fftshift(np.fft.fft2(pad_to(P, G)))
    otf = np.abs(np.fft.fftshift(np.fft.fft2(np.abs(F) ** 2)))
    tan_ref = otf[G // 2:, G // 2] / otf[G // 2, G // 2]
    sag_ref = otf[G // 2, G // 2:] / otf[G // 2, G // 2]
    for nm, got, ref in (('tangential', np.asarray(m.mtf[0][0], float), tan_ref), ('sagittal', np.asarray(m.mtf[0][1], float), sag_ref)):
        part.count('cmp:mtf-curve')
        if got.shape != ref.shape or np.max(np.abs(got - ref)) > 1e-7:
            part.violation(PID, 'mtf-is-normalised-transform-of-psf', 'FFTMTF.mtf', cond, dict(det, curve=nm), observed=got[:4], expected=ref[:4],
                           tol=1e-7)
            continue
        if abs(got[0] - 1) > 1e-12 or np.min(got) < -1e-12 or np.max(got) > 1 + 1e-9:
            part.violation(PID, 'mtf-within-[0,1]-starting-at-1', 'FFTMTF.mtf', cond, dict(det, curve=nm), observed=[float(got[0]), float(np.max(got))],
                           expected='starts at 1, within [0, 1]')


def airy(r):
    r = np.clip(r, 0, 1)
    phi = np.arccos(r)
    return 2 / np.pi * (phi - np.cos(phi) * np.sin(phi))


def run_mtf(part, unit):
    import matplotlib
    import matplotlib.pyplot as plt
    from optiland.mtf import FFTMTF, GeometricMTF
    v = unit['variant']
    sp, o = build_lens(unit['lens'], v)
    part.states += 1
    w = 0.5876
    Hy = [0.0, 1.0][unit['field']]
    for (nr, G) in ((32, 128), (64, 256), (48, 128), (33, 100)):       # grid / sampling integer and non-integer
        det = dict(lens=unit['lens'], Hy=Hy, num_rays=nr, grid=G, variant=v)
        cond = f"object={'infinite' if math.isinf(sp['obj']) else 'finite'}"
        m = FFTMTF(o, fields=[(0.0, Hy)], wavelength=w, num_rays=nr, grid_size=G)
        part.transitions += 1
        part.evals += 1
        P, inside, opd, inten = oracle_pupil(o, sp, Hy, w, nr)
        if not np.all(np.isfinite(P)):
            part.count('skipped-missing-rays')
            continue
        if np.any(inten == 0):
            cond += ',clipped-pupil'
        # working F-number = 1 / (2 n' |u'|) of the paraxial marginal ray (reference model), which defines the cut-off
        rows_p = prescription.rows(sp, lambda mm, prev: LZ.ref_index(mm, w, prev))
        ys_, us_, _ = abcd.marginal(rows_p, tuple(sp['ap']))
        fno_w = 1.0 / (2.0 * rows_p[-1]['n_post'] * abs(us_[-1]))
        cutoff = 1.0 / (w * 1e-3 * fno_w)
        part.count('cmp:cutoff')
        if abs(m.max_freq - cutoff) > 1e-8 * cutoff:
            part.violation(PID, 'mtf-cutoff-is-1/(lambda x working F-number)', 'FFTMTF.max_freq', cond, det, observed=float(m.max_freq),
                           expected=cutoff, tol=1e-8)
        # and the paraxial value agrees with the real marginal ray pair to first order (sanity of the reference itself)
        if abs(working_fno(o, sp, 0.0, w) - fno_w) > 0.05 * fno_w:
            part.count('reference-working-fno-differs-from-real-rays-by-5-percent')
        # frequency axis of the curves drawn by view(): step = 1 / (grid x PSF pixel) = Q / (grid lambda N), Q = grid / num_rays
        plt.close('all')
        orig_show = plt.show
        plt.show = lambda *a, **k: None
        try:
            m.view()
            ax = plt.gcf().axes[0]
            xs = [np.asarray(l.get_xdata(), float) for l in ax.get_lines()]
        finally:
            plt.show = orig_show
            plt.close('all')
        f_lib = xs[0]
        step_ref = (G / nr) / (G * w * 1e-3 * fno_w)
        part.count('cmp:freq-axis')
        if len(f_lib) < 2 or abs((f_lib[1] - f_lib[0]) - step_ref) > 1e-8 * step_ref:
            part.violation(PID, 'mtf-frequency-axis', 'FFTMTF.view', cond, det, observed=float(f_lib[1] - f_lib[0]) if len(f_lib) > 1 else None,
                           expected=step_ref, tol=0.02)
        # curves: reference from the oracle pupil (MTF = |FFT(PSF)| slices normalised to their first sample)
        F = np.fft.fftshift(np.fft.fft2(pad_to(P, G)))
        psf = np.abs(F) ** 2
        otf = np.abs(np.fft.fftshift(np.fft.fft2(psf)))
        tan_ref = otf[G // 2:, G // 2] / otf[G // 2, G // 2]
        sag_ref = otf[G // 2, G // 2:] / otf[G // 2, G // 2]
        freq_true = np.arange(G // 2) * step_ref
        for nm, got, ref in (('tangential', np.asarray(m.mtf[0][0], float), tan_ref), ('sagittal', np.asarray(m.mtf[0][1], float), sag_ref)):
            part.count('cmp:mtf-curve')
            if got.shape != ref.shape or np.max(np.abs(got - ref)) > 1e-7:
                part.violation(PID, 'mtf-is-normalised-transform-of-psf', 'FFTMTF.mtf', cond, dict(det, curve=nm), observed=got[:4], expected=ref[:4],
                               tol=1e-7)
                continue
            if abs(got[0] - 1) > 1e-12 or np.min(got) < -1e-12 or np.max(got) > 1 + 1e-9:
                part.violation(PID, 'mtf-within-[0,1]-starting-at-1', 'FFTMTF.mtf', cond, dict(det, curve=nm), observed=[float(got[0]), float(np.max(got))],
                               expected='starts at 1, within [0, 1]')
            dl = airy(freq_true / cutoff)
            if 'clipped' not in cond:
                if np.max(got - dl) > 2.0 / nr + 0.02:
                    i = int(np.argmax(got - dl))
                    part.violation(PID, 'mtf-not-above-diffraction-limit', 'FFTMTF.mtf', cond, dict(det, curve=nm, index=i), observed=float(got[i]),
                                   expected=float(dl[i]), tol=2.0 / nr)
                if unit['lens'] == 'paraboloid' and Hy == 0.0 and np.max(np.abs(got - dl)) > 2.0 / nr + 0.02:
                    i = int(np.argmax(np.abs(got - dl)))
                    part.violation(PID, 'perfect-lens-mtf-is-airy', 'FFTMTF.mtf', cond, dict(det, curve=nm, index=i), observed=float(got[i]),
                                   expected=float(dl[i]), tol=2.0 / nr)
        part.outcome(unit['lens'], Hy, nr, G, np.asarray(m.mtf[0][0], float)[:6])
    # ---- the analysed wavelength need not be the primary one: dispersion-free lenses with the primary elsewhere ---------------------
    if unit['lens'] in ('paraboloid', 'relay') and Hy == 0.0:
        import copy as _copy
        sp2 = _copy.deepcopy(sp)
        sp2['waves'] = [[0.45, True], [0.5876, False], [0.70, False]]
        o2 = LZ.build(sp2)
        part.states += 1
        rows_p = prescription.rows(sp2, lambda mm, prev: LZ.ref_index(mm, 0.5876, prev))
        ys_, us_, _ = abcd.marginal(rows_p, tuple(sp2['ap']))
        fno_w = 1.0 / (2.0 * rows_p[-1]['n_post'] * abs(us_[-1]))
        for wq in (0.5876, 0.70, 0.45):
            m2 = FFTMTF(o2, fields=[(0.0, 0.0)], wavelength=wq, num_rays=32, grid_size=128)
            part.transitions += 1
            part.evals += 1
            cutoff = 1.0 / (wq * 1e-3 * fno_w)
            cond2 = f"object={'infinite' if math.isinf(sp['obj']) else 'finite'},wavelength={'primary' if wq == 0.45 else 'non-primary'}"
            part.count('cmp:cutoff')
            if abs(m2.max_freq - cutoff) > 1e-8 * cutoff:
                part.violation(PID, 'mtf-cutoff-is-1/(lambda x working F-number)', 'FFTMTF.max_freq', cond2, dict(lens=unit['lens'], wavelength=wq, variant=v),
                               observed=float(m2.max_freq), expected=cutoff, tol=1e-8)
    # ---- geometric MTF: |FT of the spot line spread| x diffraction factor --------------------------------------------------
    gm = GeometricMTF(o, fields=[(0.0, Hy)], wavelength=w, num_rays=24, distribution='uniform', num_points=64)
    part.transitions += 1
    part.evals += 1
    o.trace(0.0, Hy, w, 24, 'uniform')
    x = np.asarray(o.surface_group.x[-1], float)
    y = np.asarray(o.surface_group.y[-1], float)
    freq = np.asarray(gm.freq, float)
    fno_par = float(o.paraxial.FNO())
    cond = f"object={'infinite' if math.isinf(sp['obj']) else 'finite'}"
    det = dict(lens=unit['lens'], Hy=Hy, variant=v)
    if np.all(np.isfinite(x)) and np.all(np.isfinite(y)):
        scale = airy(freq / freq[-1])
        for nm, coord, got in (('tangential', y, np.asarray(gm.mtf[0][0], float)), ('sagittal', x, np.asarray(gm.mtf[0][1], float))):
            ft = np.abs(np.exp(-2j * np.pi * np.outer(freq, coord)).sum(axis=1)) / len(coord)
            ref = ft * scale
            # the line spread is a histogram of the spot: a valid discretisation of the transform only while the bin width
            # stays below a quarter period; beyond that the binned estimate aliases and no claim is made
            binw = (np.max(coord) - np.min(coord)) / (gm.num_points + 1)
            judged = freq * binw <= 0.25
            part.count('cmp:geometric-mtf')
            part.count('geometric-mtf-samples-judged', int(np.sum(judged)))
            part.count('geometric-mtf-samples-total', len(freq))
            # binning error grows with (frequency x bin width); the finite ray count sets a floor of ~1/sqrt(N)
            tolv = 0.01 + 1.5 / math.sqrt(len(coord)) * (freq * binw / 0.25)
            if got.shape == ref.shape:
                got, ref, tolv = got[judged], ref[judged], tolv[judged]
            if got.shape != ref.shape or (len(got) and np.any(np.abs(got - ref) > tolv)):
                i = int(np.argmax(np.abs(got - ref) - tolv)) if got.shape == ref.shape else 0
                part.violation(PID, 'geometric-mtf-is-ft-of-line-spread', 'GeometricMTF.mtf', cond, dict(det, curve=nm, index=i),
                               observed=float(got[i]) if got.shape == ref.shape else list(got.shape), expected=float(ref[i]), tol=0.03)
            if abs(got[0] - 1) > 1e-9:
                part.violation(PID, 'geometric-mtf-starts-at-1', 'GeometricMTF.mtf', cond, dict(det, curve=nm), observed=float(got[0]), expected=1.0)
    part.sample(dict(lens=unit['lens'], Hy=Hy, kind='mtf'))


def run_unit(unit):
    part = Part(unit)
    if unit.get('kind') == 'mtf':
        run_mtf(part, unit)
    else:
        run_psf(part, unit)
    return part


def nontrivial_guard(total, tier):
    if total.counters.get('nontrivial', 0) < 10:
        return 'hardly any aberrated or clipped pupil in the lattice'
    return None
