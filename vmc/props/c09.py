"""C09 - reported OPD is the path difference to the chief-ray reference sphere.

Construction LTS over imaging words (last medium air) x every stop position x {infinite/angle, finite/height} x
three image-plane positions (paraxial focus and two defocus offsets; real and virtual exit pupils arise).
Oracle: vmc.ref.opd evaluated on independently traced records (own chief ray, reference exit pupil from vmc.ref.abcd).
"""
import itertools
import math

import numpy as np

from vmc import lens as LZ
from vmc.core import Part
from vmc.lens import S, V
from vmc.ref import abcd, prescription, opd as ROPD
from vmc.props.c07 import medium_after

PID = 'C09'
TOLW = 1e-7        # waves
META = dict(
    rule='unit = lens word x stop position; evaluation = one Wavefront-family call compared pupil sample by pupil sample '
         'with the geometric OPD; non-trivial = |OPD| > 1e-3 waves somewhere; distinct = rounded OPD vectors',
    exhaustive=True,
    bounds=dict(quick='imaging words depth<=2 over 8 symbols (+3 over 5), every stop, 2 object/field kinds, 3 image positions, '
                      '3 fields x 3 wavelengths x 4 distributions; OPDFan, OPD.rms, RmsWavefrontErrorVsField, OPD_difference on depth<=2',
                thorough='depth<=3 over 8 symbols, 4 numeric variants'),
    tolerances=dict(opd='1e-7 waves absolute + 1e-9 relative'),
    assumptions=['exit pupil from vmc.ref.abcd', 'reference sphere intersection taken behind the image (back-propagation)',
                 'image space is air'],
)


def alphabet(v):
    p = V(v)
    # weakly absorbing ideal glasses: the pupil transmission is not uniform (it must not enter any OPD statistic)
    g1, g2 = ['ideal', p['n1'], 3e-6], ['ideal', p['n2'], 5e-6]
    t = p['t']
    return [
        S('sphere', R=p['R'], mat='N-BK7', t=t[1]),
        S('sphere', R=-p['R'], mat='air', t=t[2]),
        S('plane', mat=g2, t=t[0]),
        S('sphere', R=-1.3 * p['R'], mat='air', t=t[1]),
        S('plane', mat='air', t=4.0 * p['R']),      # long air gap: a stop here is imaged beyond the image plane (virtual exit pupil)
        S('sphere', R=-3.5 * p['R'], mat='mirror', t=t[2]),
        S('asph', R=p['Ra'], k=0.0, coeffs=[0.0, -2e-7], mat=g1, t=t[0]),
        S('conic', R=-p['Rc'], k=-0.6, mat='air', t=t[1]),
    ]


def units(tier, variant):
    A = alphabet(variant)
    if tier == 'quick':
        ws = list(LZ.words(A, 1, 2)) + list(LZ.words(A[:5], 3, 3))
    else:
        ws = list(LZ.words(A, 1, 3))
    out = []
    for w in ws:
        surfs = [A[i] for i in w]
        if medium_after(dict(surfs=surfs), len(surfs) - 1) != 'air':
            continue
        for s in range(len(w)):
            out.append(dict(word=list(w), stop=s, variant=variant))
    return out


class owned_rng:
    """The harness owns the library's only random source: every generator created without a seed inside the block is
    seeded 1000, 1001, ... in creation order (distinct streams, same on every run)."""

    def __enter__(self):
        self.orig = np.random.default_rng
        count = itertools.count(1000)
        np.random.default_rng = lambda seed=None: self.orig(next(count) if seed is None else seed)

    def __exit__(self, *a):
        np.random.default_rng = self.orig


def geometric_opd(o, rows_w, Hy, Px, Py, w, xpl_ref):
    """Independent traces: chief ray alone, then the pupil samples."""
    n = len(Px)
    sg = o.surface_group

    def grab():
        P = np.stack([np.asarray(sg.x, float), np.asarray(sg.y, float), np.asarray(sg.z, float)], axis=2)
        D = np.stack([np.asarray(sg.L, float), np.asarray(sg.M, float), np.asarray(sg.N, float)], axis=2)
        return P, D
    o.trace_generic(0.0, Hy, 0.0, 0.0, w)
    Pc, Dc = grab()
    C = Pc[-1, 0]
    E = np.array([0.0, 0.0, rows_w[-1]['z'] + xpl_ref])
    R = float(np.linalg.norm(C - E))
    n_before = [r['n_pre'] for r in rows_w]
    plane = math.isinf(rows_w[0]['z'])
    Wc = ROPD.path_to_sphere(Pc, Dc, n_before, rows_w[0]['n_post'], plane, C, R)[0]
    o.trace_generic(np.zeros(n), np.full(n, Hy), Px.copy(), Py.copy(), w)
    P, D = grab()
    W = ROPD.path_to_sphere(P, D, n_before, rows_w[0]['n_post'], plane, C, R)
    return (Wc - W) / (w * 1e-3)


def cmp_opd(part, clause, site, cond, det, got, ref):
    got, ref = np.asarray(got, float), np.asarray(ref, float)
    part.count('cmp:' + clause)
    if got.shape != ref.shape:
        part.violation(PID, clause, site, cond, det, observed=got.shape, expected=ref.shape)
        return
    fin = np.isfinite(ref)
    if not np.array_equal(np.isfinite(got), fin):
        part.violation(PID, clause, site, cond, det, observed='finite pattern differs', expected='same samples valid')
        return
    if np.any(fin):
        e = np.abs(got[fin] - ref[fin])
        lim = TOLW + 1e-9 * np.abs(ref[fin])
        if np.any(e > lim):
            i = int(np.argmax(e - lim))
            part.violation(PID, clause, site, cond, dict(det, sample=i), observed=float(got[fin][i]), expected=float(ref[fin][i]),
                           tol=TOLW)
        if np.max(np.abs(ref[fin])) > 1e-3:
            part.count('nontrivial')


def dist_points(name, n):
    from optiland import distribution as DD
    if name == 'gq':
        d = DD.GaussianQuadrature(is_symmetric=False)
        d.generate_points(n)
    else:
        d = DD.create_distribution(name)
        d.generate_points(n)
    return d


def run_unit(unit):
    from optiland.wavefront import Wavefront, OPD, OPDFan
    from optiland.analysis import RmsWavefrontErrorVsField
    from optiland.optimization.operand import RayOperand
    part = Part(unit)
    v = unit['variant']
    p = V(v)
    A = alphabet(v)
    base = LZ.with_stop(LZ.fix_thickness_signs([A[i] for i in unit['word']]), unit['stop'])
    waves = ((0.4861, False), (0.5876, True), (0.6563, False))
    short = len(unit['word']) <= 2
    water = ['ideal', 1.33, 0.0]
    cfgs = [(LZ.INF, 'angle', p['ang'], None), (p['od'][0], 'object_height', p['h'], None)]
    if short:
        cfgs.append((LZ.INF, 'angle', p['ang'], water))       # the oblique plane wave travels in a medium (water port)
    for obj, ft, mf, omat in cfgs:
        if omat and medium_after(dict(surfs=base, obj_mat=omat), len(base) - 1) != 'air':
            part.count('skipped-image-space-not-air')      # (mirrors only: the image would lie in the object medium)
            continue
        sp0 = LZ.spec(base, obj=obj, ap=('EPD', p['epd']), ftype=ft, fields=(0.0, 0.7 * mf, mf), waves=waves, obj_mat=omat)
        rows0 = prescription.rows(sp0, lambda m, prev: LZ.ref_index(m, 0.5876, prev))
        if abcd.pupil_degenerate(rows0):
            part.count('skipped-telecentric-pupil')
            continue
        card = abcd.cardinal(rows0)
        ys, us, _ = abcd.marginal(rows0, ('EPD', p['epd']))
        if abs(us[-2]) < 1e-6:
            part.count('skipped-afocal')
            continue
        focus_shift = -ys[-1] / us[-2]          # from the built image plane to the paraxial focus of this object
        if not math.isfinite(focus_shift) or abs(focus_shift) > 2e3:
            part.count('skipped-afocal')
            continue
        nm_ = sum(1 for s_ in base if s_['mat'] == 'mirror')
        tsign = -1.0 if nm_ % 2 else 1.0
        for off in (0.0, 0.4, -0.7):
            sp = LZ.spec(base, obj=obj, ap=('EPD', p['epd']), ftype=ft, fields=(0.0, 0.7 * mf, mf), waves=waves, obj_mat=omat)
            sp['surfs'][-1]['t'] = sp['surfs'][-1]['t'] + focus_shift + off
            if sp['surfs'][-1]['t'] * tsign < 0.3:
                part.count('skipped-virtual-image')
                continue
            o = LZ.build(sp)
            part.states += 1
            cond = f"object={'infinite' if math.isinf(obj) else 'finite'},field={ft}" + (',object-medium=immersed' if omat else '')
            det0 = dict(word=unit['word'], stop=unit['stop'], variant=v, obj=obj, defocus=off)
            for w in (0.5876, 0.4861, 0.6563):
                rows_w = prescription.rows(sp, lambda m, prev: LZ.ref_index(m, w, prev))
                # exit pupil at the primary wavelength (the library's XPL is a primary-wavelength quantity)
                rows_p = prescription.rows(sp, lambda m, prev: LZ.ref_index(m, 0.5876, prev))
                xpl = abcd.XPL(rows_p)
                if not math.isfinite(xpl) or abs(xpl) > 1e6:
                    part.count('skipped-telecentric-pupil')
                    continue
                part.count('virtual-exit-pupil' if xpl * tsign > 0 else 'real-exit-pupil')
                dists = [('hexapolar', 3), ('uniform', 8), ('cross', 9), ('ring', 12), ('random', 12)] if w == 0.5876 or short else [('hexapolar', 3)]
                for name, nr in dists:
                    with owned_rng():
                        wf = Wavefront(o, fields=[(0.0, 0.0), (0.0, 0.7), (0.0, 1.0), (0.0, -1.0), (0.0, -0.4)], wavelengths=[w], num_rays=nr, distribution=name)
                    if name == 'random':
                        # the reported samples are the pupil points the analysis object exposes (drawn once, by name)
                        Px, Py = np.asarray(wf.distribution.x, float).copy(), np.asarray(wf.distribution.y, float).copy()
                        part.count('random-distribution-calls')
                    else:
                        d = dist_points(name, nr)
                        Px, Py = np.asarray(d.x, float).copy(), np.asarray(d.y, float).copy()
                    part.transitions += 1
                    part.evals += 1
                    for fi, Hy in enumerate((0.0, 0.7, 1.0, -1.0, -0.4)):       # fields on both sides of the axis
                        ref = geometric_opd(o, rows_w, Hy, Px, Py, w, xpl)
                        det = dict(det0, wavelength=w, distribution=name, Hy=Hy)
                        cmp_opd(part, 'opd-is-path-difference-to-reference-sphere', 'Wavefront', cond, det, wf.data[fi][0][0], ref)
                        part.outcome(unit['word'], unit['stop'], off, w, name, Hy, np.nan_to_num(ref[:4]))
                # chief ray exactly zero
                d = dist_points('cross', 3)
                wf = Wavefront(o, fields=[(0.0, 1.0)], wavelengths=[w], num_rays=3, distribution='cross')
                c0 = np.asarray(wf.data[0][0][0], float)[np.where((np.asarray(d.x) == 0) & (np.asarray(d.y) == 0))[0]]
                part.count('cmp:chief-zero')
                # closed-form surfaces: zero to rounding; each iteratively intersected surface (Newton-Raphson, documented
                # tolerance 1e-10 mm on the sag residual) lets the lone chief ray and the same ray inside a batch stop at
                # different iterations (the position error is then carried over the remaining track), so allow 1e-8 mm of path per such surface
                n_iter = sum(1 for s_ in sp['surfs'] if s_['shape'] not in ('sphere', 'plane', 'conic'))
                ctol = 1e-9 + n_iter * 1e-8 / (w * 1e-3)
                if len(c0) and np.all(np.isfinite(c0)) and np.max(np.abs(c0)) > ctol:
                    part.violation(PID, 'chief-ray-opd-zero', 'Wavefront', cond, dict(det0, wavelength=w), observed=float(c0[0]), expected=0.0,
                                   tol=ctol)
            # ---- one call covering several fields AND several wavelengths ('all'): every (field, wavelength) cell is the
            #      same quantity as when it is analysed alone
            rows_p = prescription.rows(sp, lambda m, prev: LZ.ref_index(m, 0.5876, prev))
            xpl = abcd.XPL(rows_p)
            if math.isfinite(xpl) and abs(xpl) < 1e6:
                wf = Wavefront(o, fields='all', wavelengths='all', num_rays=3, distribution='hexapolar')
                part.transitions += 1
                part.evals += 1
                d = dist_points('hexapolar', 3)
                Px, Py = np.asarray(d.x, float).copy(), np.asarray(d.y, float).copy()
                for fi, Hy in enumerate((0.0, 0.7, 1.0)):
                    for wi, w in enumerate((0.4861, 0.5876, 0.6563)):
                        rows_w = prescription.rows(sp, lambda m, prev: LZ.ref_index(m, w, prev))
                        ref = geometric_opd(o, rows_w, Hy, Px, Py, w, xpl)
                        cmp_opd(part, 'opd-all-fields-all-wavelengths', 'Wavefront', cond,
                                dict(det0, wavelength=w, Hy=Hy, call='fields=all,wavelengths=all'), wf.data[fi][wi][0], ref)
            # ---- the same lens with its field list on the other side of the axis (the largest field is negative)
            if off == 0.0 and math.isfinite(xpl) and abs(xpl) < 1e6:
                sp_n = dict(sp, fields=[[-mf, 0.0, 0.0], [0.0, 0.0, 0.0], [0.4 * mf, 0.0, 0.0]])
                o_n = LZ.build(sp_n)
                part.states += 1
                d = dist_points('hexapolar', 3)
                Px, Py = np.asarray(d.x, float).copy(), np.asarray(d.y, float).copy()
                flds = [(0.0, 1.0), (0.0, -1.0), (0.0, 0.4)]
                wf = Wavefront(o_n, fields=flds, wavelengths=[0.5876], num_rays=3, distribution='hexapolar')
                part.transitions += 1
                part.evals += 1
                rows_p = prescription.rows(sp_n, lambda m, prev: LZ.ref_index(m, 0.5876, prev))
                for fi, (_, Hy) in enumerate(flds):
                    ref = geometric_opd(o_n, rows_p, Hy, Px, Py, 0.5876, xpl)
                    cmp_opd(part, 'opd-is-path-difference-to-reference-sphere', 'Wavefront', cond + ',largest-field=negative',
                            dict(det0, wavelength=0.5876, Hy=Hy, fields=[-mf, 0.0, 0.4 * mf]), wf.data[fi][0][0], ref)
            # ---- the OPD map object after view(): the stored samples and rms() are still the path differences
            if off == 0.0 and math.isfinite(xpl) and abs(xpl) < 1e6:
                import matplotlib.pyplot as plt
                om = OPD(o, (0.0, 1.0), 0.5876, 3)
                d0 = np.asarray(om.data[0][0][0], float).copy()
                r0 = float(om.rms())
                orig_show = plt.show
                plt.show = lambda *a, **k: None
                try:
                    om.view(num_points=16)
                    om.view(projection='3d', num_points=16)
                finally:
                    plt.show = orig_show
                    plt.close('all')
                part.transitions += 2
                part.evals += 1
                d1 = np.asarray(om.data[0][0][0], float)
                if not np.array_equal(d0, d1, equal_nan=True) or not (float(om.rms()) == r0 or (math.isnan(r0) and math.isnan(float(om.rms())))):
                    part.violation(PID, 'opd-map-samples-unchanged-by-view', 'OPD.view', cond, dict(det0, wavelength=0.5876), observed=d1[:4], expected=d0[:4])
            # ---- history: replace the first glass through set_index on this lens object, analyse again at the same wavelength
            gi = next((i for i, s_ in enumerate(sp['surfs']) if s_['mat'] not in ('air', 'mirror')), None)
            if gi is not None and off == 0.0 and math.isfinite(xpl):
                import copy as _copy
                sp_h = _copy.deepcopy(sp)
                sp_h['surfs'][gi]['mat'] = ['ideal', 1.66, 0.0]
                # the last analysis before the edit and the first one after it use the same wavelength
                Wavefront(o, fields=[(0.0, 1.0)], wavelengths=[0.5876], num_rays=3, distribution='hexapolar')
                part.transitions += 1
                o.set_index(1.66, gi + 1)
                part.transitions += 1
                rows_h = prescription.rows(sp_h, lambda m, prev: LZ.ref_index(m, 0.5876, prev))
                xpl_h = abcd.XPL(rows_h)
                if math.isfinite(xpl_h) and abs(xpl_h) < 1e6:
                    d = dist_points('hexapolar', 3)
                    Px, Py = np.asarray(d.x, float).copy(), np.asarray(d.y, float).copy()
                    wf = Wavefront(o, fields=[(0.0, 1.0)], wavelengths=[0.5876], num_rays=3, distribution='hexapolar')
                    part.evals += 1
                    ref = geometric_opd(o, rows_h, 1.0, Px, Py, 0.5876, xpl_h)
                    cmp_opd(part, 'opd-after-set_index', 'Wavefront', cond, dict(det0, after='set_index(1.66)', surface=gi + 1), wf.data[0][0][0], ref)
                o = LZ.build(sp)      # back to the unedited lens for what follows
            if not short or off != 0.0:
                continue
            # ---- derived quantities on their documented samples ---------------------------------------------------------
            w = 0.5876
            rows_w = prescription.rows(sp, lambda m, prev: LZ.ref_index(m, w, prev))
            xpl = abcd.XPL(rows_w)
            if not math.isfinite(xpl) or abs(xpl) > 1e6:
                continue
            # OPD (hexapolar rings) and its rms
            d = dist_points('hexapolar', 4)
            Px, Py = np.asarray(d.x, float).copy(), np.asarray(d.y, float).copy()
            ref = geometric_opd(o, rows_w, 1.0, Px, Py, w, xpl)
            om = OPD(o, (0.0, 1.0), w, num_rings=4)
            part.transitions += 1
            part.evals += 1
            cmp_opd(part, 'opd-map-samples', 'OPD', cond, dict(det0, Hy=1.0), om.data[0][0][0], ref)
            if np.all(np.isfinite(ref)):
                cmp_opd(part, 'opd-rms', 'OPD.rms', cond, dict(det0, Hy=1.0), [om.rms()], [math.sqrt(float(np.mean(ref ** 2)))])
            # OPD fan: cross distribution with num_rays points per arm
            nf = 7
            d = dist_points('cross', nf)
            Px, Py = np.asarray(d.x, float).copy(), np.asarray(d.y, float).copy()
            fan = OPDFan(o, fields=[(0.0, 0.7)], wavelengths=[w], num_rays=nf)
            part.transitions += 1
            part.evals += 1
            ref = geometric_opd(o, rows_w, 0.7, Px, Py, w, xpl)
            cmp_opd(part, 'opd-fan-samples', 'OPDFan', cond, dict(det0, Hy=0.7), fan.data[0][0][0], ref)
            # RMS wavefront error versus field: fields (0, Hy), Hy = linspace(0, 1, num_fields)
            nfld = 4
            rv = RmsWavefrontErrorVsField(o, num_fields=nfld, wavelengths=[w], num_rays=3, distribution='hexapolar')
            part.transitions += 1
            part.evals += 1
            d = dist_points('hexapolar', 3)
            Px, Py = np.asarray(d.x, float).copy(), np.asarray(d.y, float).copy()
            exp = []
            for Hy in np.linspace(0, 1, nfld):
                r_ = geometric_opd(o, rows_w, float(Hy), Px, Py, w, xpl)
                exp.append(math.sqrt(float(np.mean(r_ ** 2))) if np.all(np.isfinite(r_)) else float('nan'))
            cmp_opd(part, 'rms-wavefront-vs-field', 'RmsWavefrontErrorVsField', cond, det0, np.asarray(rv._wavefront_error)[:, 0], exp)
            # OPD-difference operand: mean |w (W - mean W)| on Gaussian quadrature samples
            from optiland.distribution import GaussianQuadrature
            for Hy, sym in ((0.0, True), (1.0, False)):
                gq = GaussianQuadrature(is_symmetric=sym)
                gq.generate_points(3)
                wts = gq.get_weights(3) if sym else np.repeat(gq.get_weights(3), 3)
                Px, Py = np.asarray(gq.x, float).copy(), np.asarray(gq.y, float).copy()
                r_ = geometric_opd(o, rows_w, Hy, Px, Py, w, xpl)
                val = RayOperand.OPD_difference(o, 0.0, Hy, 3, w)
                part.transitions += 1
                part.evals += 1
                if np.all(np.isfinite(r_)):
                    cmp_opd(part, 'opd-difference-operand', 'RayOperand.OPD_difference', cond, dict(det0, Hy=Hy), [val],
                            [float(np.mean(np.abs((r_ - np.mean(r_)) * wts)))])
    part.sample(dict(word=unit['word'], stop=unit['stop']))
    return part


def nontrivial_guard(total, tier):
    c = total.counters
    if c.get('nontrivial', 0) < 0.3 * max(1, c.get('cmp:opd-is-path-difference-to-reference-sphere', 0)):
        return 'most OPD vectors are below 1e-3 waves'
    if c.get('virtual-exit-pupil', 0) == 0 or c.get('real-exit-pupil', 0) == 0:
        return f'exit-pupil kinds not both exercised: {c}'
    return None
