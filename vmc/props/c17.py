"""C17 - Fresnel coefficients conserve energy; polarization elements obey their algebra.

E part (finite lattices enumerated outright): index pairs x incidence angles for JonesFresnel; element angle x
retardance x transmission lattices for the Jones elements. B part: construction LTS over a symmetric surface
alphabet x {uncoated, Fresnel-coated} x polarization-state menu, oracle = energy / transversality / orthogonal-pair
identities evaluated on the traced rays' polarization matrices.
"""
import itertools
import math

import numpy as np

from vmc import lens as LZ
from vmc.core import Part
from vmc.lens import S, V
from vmc.props import c04

PID = 'C17'
TOL = 1e-9
META = dict(
    rule='unit = one index pair (all angles), one element family (whole parameter lattice) or one lens x coating mode (all '
         'states); evaluation = one calculate_matrix / trace call; distinct = rounded coefficient or intensity tuples',
    exhaustive=True,
    bounds=dict(quick='index lattice {1,1.33,1.5,2,4}^2 x 19 angles + Brewster + normal; 24 element angles x 12 retardances x '
                      '(t_min,t_max) lattice; lens words depth<=2 over 6 symbols x {uncoated, fresnel} x 14 states x 2 fields',
                thorough='lens words depth<=3, 4 numeric variants'),
    tolerances=dict(algebraic='1e-9'),
    assumptions=['T = (n2 cos t / n1 cos i) |t|^2 for the energy balance of amplitude coefficients',
                 'intensity reported by the trace is sum |E|^2 (library definition)'],
)

NS = [1.0, 1.33, 1.5, 2.0, 4.0]
NAMED = ['H', 'V', 'L+45', 'L-45', 'RCP', 'LCP']
LATTICE = [(1.0, 0.0, 0.0, 0.0), (0.3, 0.9, 0.0, 0.7), (0.8, 0.6, 0.4, -1.1), (0.5, 0.5, 0.0, 2.0),
           (0.2, -0.97, 1.0, 0.0), (0.6, 0.8, -0.3, 3.0), (0.9, 0.1, 0.0, 1.5707963), (0.707, 0.707, 0.0, -0.5)]


def units(tier, variant):
    out = [dict(kind='fresnel', n1=a, n2=b) for a in NS for b in NS if a != b]
    out += [dict(kind='element', family=f) for f in ('polarizers', 'diattenuator', 'retarder')]
    out += [dict(kind='dispersive', glass=g) for g in ('SF11', 'N-BK7', 'N-LASF9')]
    out += [dict(kind='lens', word=[0, 1], mode=m, variant=variant, tilted=True) for m in ('uncoated', 'fresnel')]
    A = c04.alphabet(variant)[:6]
    depth = 2 if tier == 'quick' else 3
    for w in LZ.words(A, 1, depth):
        for mode in ('uncoated', 'fresnel'):
            out.append(dict(kind='lens', word=list(w), mode=mode, variant=variant))
    return out


class _Rays:
    pass


def fake_rays(n, w=0.55):
    from optiland.rays import RealRays
    z = np.zeros(n)
    return RealRays(z.copy(), z.copy(), z.copy(), z.copy(), z.copy(), np.ones(n), np.ones(n), np.full(n, w))


def run_fresnel(part, unit):
    from optiland.jones import JonesFresnel
    from optiland.materials import IdealMaterial
    n1, n2 = unit['n1'], unit['n2']
    part.states += 1
    crit = math.asin(n2 / n1) if n2 < n1 else math.pi / 2
    ang = list(np.linspace(0, crit, 21)[:-1])            # 20 angles in [0, limit)
    brew = math.atan(n2 / n1)
    if brew < crit:
        ang.append(brew)
    aoi = np.array(ang)
    rays = fake_rays(len(aoi))
    J = JonesFresnel(IdealMaterial(n1), IdealMaterial(n2))
    Jt = J.calculate_matrix(rays, reflect=False, aoi=aoi)
    Jr = J.calculate_matrix(rays, reflect=True, aoi=aoi)
    part.transitions += 2
    part.evals += len(aoi)
    ts, tp = Jt[:, 0, 0], Jt[:, 1, 1]
    rs, rp = Jr[:, 0, 0], -Jr[:, 1, 1]
    # reference via the transmitted angle (cos form, not the radicand form)
    sint = n1 * np.sin(aoi) / n2
    cost = np.sqrt(1 - sint ** 2)
    cosi = np.cos(aoi)
    fac = n2 * cost / (n1 * cosi)
    c = f"n1{'>' if n1 > n2 else '<'}n2"
    det = dict(n1=n1, n2=n2)
    for name, r, t in (('s', rs, ts), ('p', rp, tp)):
        bal = np.abs(r) ** 2 + fac * np.abs(t) ** 2
        if np.max(np.abs(bal - 1)) > TOL:
            i = int(np.argmax(np.abs(bal - 1)))
            part.violation(PID, f'energy-R+T=1-{name}', 'JonesFresnel.calculate_matrix', c, dict(det, aoi=float(aoi[i])),
                           observed=float(bal[i]), expected=1.0, tol=TOL)
    rs_ref = (n1 * cosi - n2 * cost) / (n1 * cosi + n2 * cost)
    rp_ref = (n2 * cosi - n1 * cost) / (n2 * cosi + n1 * cost)
    ts_ref = 2 * n1 * cosi / (n1 * cosi + n2 * cost)
    tp_ref = 2 * n1 * cosi / (n2 * cosi + n1 * cost)
    for name, got, ref in (('rs', rs, rs_ref), ('rp', rp, rp_ref), ('ts', ts, ts_ref), ('tp', tp, tp_ref)):
        # amplitude sign conventions differ between texts: magnitudes are compared
        if np.max(np.abs(np.abs(got) - np.abs(ref))) > TOL:
            i = int(np.argmax(np.abs(np.abs(got) - np.abs(ref))))
            part.violation(PID, f'fresnel-magnitude-{name}', 'JonesFresnel.calculate_matrix', c,
                           dict(det, aoi=float(aoi[i])), observed=complex(got[i]), expected=float(ref[i]), tol=TOL)
    if brew < crit and abs(rp[-1]) > TOL:
        part.violation(PID, 'brewster-rp-zero', 'JonesFresnel.calculate_matrix', c, dict(det, aoi=brew),
                       observed=complex(rp[-1]), expected=0.0, tol=TOL)
    R0 = ((n1 - n2) / (n1 + n2)) ** 2
    for name, r in (('s', rs), ('p', rp)):
        if abs(abs(r[0]) ** 2 - R0) > TOL:
            part.violation(PID, f'normal-incidence-{name}', 'JonesFresnel.calculate_matrix', c, det,
                           observed=float(abs(r[0]) ** 2), expected=R0, tol=TOL)
    # structure of the 3x3 matrix: diagonal, k-component +-1
    off = Jt.copy()
    off[:, [0, 1, 2], [0, 1, 2]] = 0
    if np.max(np.abs(off)) > 0 or np.any(Jt[:, 2, 2] != 1) or np.any(Jr[:, 2, 2] != -1):
        part.violation(PID, 'fresnel-matrix-structure', 'JonesFresnel.calculate_matrix', c, det, observed=Jt[0],
                       expected='diag(s, p, +-1)')
    part.outcome(n1, n2, np.abs(rs[:4]), np.abs(tp[:4]))
    part.sample(dict(n1=n1, n2=n2, angles=len(aoi)))


def run_dispersive(part, unit):
    """One JonesFresnel object / one coated lens used at several wavelengths in a row (same ray count): the coefficients are
    those of the indices at the rays' wavelength, whatever was evaluated before."""
    from optiland.jones import JonesFresnel
    from optiland.materials import Material, IdealMaterial
    glass = unit['glass']
    part.states += 1
    aoi = np.linspace(0.0, 1.2, 7)
    for order in ((0.4861, 0.5876, 0.6563), (0.6563, 0.4861), (0.5876, 0.5876, 0.4861)):
        for pre_air in (True, False):
            m = Material(glass)
            J = JonesFresnel(IdealMaterial(1.0), m) if pre_air else JonesFresnel(m, IdealMaterial(1.0))
            for w in order:
                ng = float(np.ravel(Material(glass).n(w))[0])          # fresh material object
                n1, n2 = (1.0, ng) if pre_air else (ng, 1.0)
                a = aoi if pre_air else aoi * (math.asin(1 / ng) / 1.3)
                rays = fake_rays(len(a), w)
                Jt = J.calculate_matrix(rays, reflect=False, aoi=a)
                Jr = J.calculate_matrix(rays, reflect=True, aoi=a)
                part.transitions += 2
                part.evals += 2
                sint = n1 * np.sin(a) / n2
                cost, cosi = np.sqrt(1 - sint ** 2), np.cos(a)
                ref = dict(rs=(n1 * cosi - n2 * cost) / (n1 * cosi + n2 * cost), rp=(n2 * cosi - n1 * cost) / (n2 * cosi + n1 * cost),
                           ts=2 * n1 * cosi / (n1 * cosi + n2 * cost), tp=2 * n1 * cosi / (n2 * cosi + n1 * cost))
                got = dict(rs=Jr[:, 0, 0], rp=-Jr[:, 1, 1], ts=Jt[:, 0, 0], tp=Jt[:, 1, 1])
                for name in ref:
                    if np.max(np.abs(np.abs(got[name]) - np.abs(ref[name]))) > TOL:
                        i = int(np.argmax(np.abs(np.abs(got[name]) - np.abs(ref[name]))))
                        part.violation(PID, f'fresnel-magnitude-{name}', 'JonesFresnel.calculate_matrix', 'dispersive-medium,object-reused-across-wavelengths',
                                       dict(glass=glass, order=list(order), wavelength=w, aoi=float(a[i]), air_first=pre_air),
                                       observed=complex(got[name][i]), expected=float(ref[name][i]), tol=TOL)
                part.outcome(glass, order, w, pre_air, np.abs(got['rs'][:3]))
    # a Fresnel-coated singlet of that glass traced at several wavelengths in a row == a fresh lens traced at that wavelength only
    p = V(0)
    surfs = [S('sphere', R=p['R'], mat=glass, t=5.0, stop=True, coating='fresnel'), S('sphere', R=-p['R'], mat='air', t=40.0, coating='fresnel')]
    waves = ((0.4861, False), (0.5876, True), (0.6563, False))
    sp = LZ.spec(surfs, obj=LZ.INF, ap=('EPD', p['epd']), ftype='angle', fields=(0.0, 12.0), waves=waves)
    for st in ('unpolarized', 'H', (0.3, 0.9, 0.0, 0.7)):
        for order in ((0.4861, 0.6563), (0.6563, 0.5876, 0.4861)):
            o = LZ.build(sp)
            o.set_polarization(state_spec(st))
            part.states += 1
            for w in order:
                got = np.asarray(o.trace(0.0, 1.0, w, 3, 'hexapolar').i, float).copy()
                o2 = LZ.build(sp)
                o2.set_polarization(state_spec(st))
                ref = np.asarray(o2.trace(0.0, 1.0, w, 3, 'hexapolar').i, float)
                part.transitions += 2
                part.evals += 1
                if got.shape != ref.shape or np.max(np.abs(got - ref)) > TOL:
                    part.violation(PID, 'coated-lens-intensity-independent-of-earlier-wavelengths', 'Optic.trace', 'dispersive-medium,lens-reused-across-wavelengths',
                                   dict(glass=glass, state=st if isinstance(st, str) else list(st), order=list(order), wavelength=w),
                                   observed=got[:4], expected=ref[:4], tol=TOL)
    # a Fresnel-coated singlet after set_index on the same lens == the same lens built with that index (the coating's media are the
    # media of the surface it sits on)
    import copy as _copy
    g0 = ['ideal', 1.5, 0.0]
    base = [S('sphere', R=p['R'], mat=g0, t=5.0, stop=True, coating='fresnel'), S('sphere', R=-p['R'], mat='air', t=40.0, coating='fresnel')]
    spb = LZ.spec(base, obj=LZ.INF, ap=('EPD', p['epd']), ftype='angle', fields=(0.0, 12.0), waves=((0.5876, True),))
    for n_new in (1.8, 2.0):
        sp_new = _copy.deepcopy(spb)
        sp_new['surfs'][0]['mat'] = ['ideal', n_new, 0.0]
        for st in ('unpolarized', 'H'):
            o = LZ.build(spb)
            o.set_polarization(state_spec(st))
            o.trace(0.0, 1.0, 0.5876, 3, 'hexapolar')
            o.set_index(n_new, 1)
            got = np.asarray(o.trace(0.0, 1.0, 0.5876, 3, 'hexapolar').i, float).copy()
            o2 = LZ.build(sp_new)
            o2.set_polarization(state_spec(st))
            ref = np.asarray(o2.trace(0.0, 1.0, 0.5876, 3, 'hexapolar').i, float)
            part.states += 2
            part.transitions += 4
            part.evals += 1
            if got.shape != ref.shape or np.max(np.abs(got - ref)) > TOL:
                part.violation(PID, 'coated-lens-intensity-follows-set_index', 'Optic.set_index', 'fresnel-coating,history=set_index',
                               dict(glass=glass, state=st, new_index=n_new), observed=got[:4], expected=ref[:4], tol=TOL)
    part.sample(dict(glass=glass))


def rot(t):
    c, s = math.cos(t), math.sin(t)
    return np.array([[c, -s], [s, c]])


def run_element(part, unit):
    from optiland import jones as JJ
    rays = fake_rays(2)
    fam = unit['family']
    part.states += 1

    def M2(el):
        M = el.calculate_matrix(rays)
        part.transitions += 1
        part.evals += 1
        if M.shape != (2, 3, 3) or np.max(np.abs(M[0] - M[1])) > 0 or abs(M[0, 2, 2] - 1) > 0 or \
                np.max(np.abs(M[0, 2, :2])) > 0 or np.max(np.abs(M[0, :2, 2])) > 0:
            part.violation(PID, 'element-matrix-structure', type(el).__name__, 'shape', {}, observed=M[0],
                           expected='same 3x3 for every ray, block diag(J, 1)')
        return M[0, :2, :2]

    if fam == 'polarizers':
        states = dict(JonesPolarizerH=(1, 0), JonesPolarizerV=(0, 1), JonesPolarizerL45=(1, 1), JonesPolarizerL135=(1, -1),
                      JonesPolarizerRCP=(1, -1j), JonesPolarizerLCP=(1, 1j))
        for name, vec in states.items():
            P = M2(getattr(JJ, name)())
            v = np.array(vec, dtype=complex)
            v /= np.linalg.norm(v)
            ref = np.outer(v, v.conj())
            c = f'element={name}'
            if np.max(np.abs(P @ P - P)) > TOL:
                part.violation(PID, 'polarizer-idempotent', name, c, {}, observed=P @ P, expected=P, tol=TOL)
            if np.max(np.abs(P - P.conj().T)) > TOL:
                part.violation(PID, 'polarizer-hermitian', name, c, {}, observed=P, expected='P = P^H', tol=TOL)
            if abs(np.trace(P) - 1) > TOL:
                part.violation(PID, 'polarizer-rank-one', name, c, {}, observed=complex(np.trace(P)), expected=1.0, tol=TOL)
            # projector onto the stated state (either circular handedness convention accepted for RCP/LCP)
            alt = ref.conj() if 'CP' in name else ref
            if min(np.max(np.abs(P - ref)), np.max(np.abs(P - alt))) > TOL:
                part.violation(PID, 'polarizer-projects-onto-stated-state', name, c, {}, observed=P, expected=ref, tol=TOL)
            part.outcome(name, P)
        # the two circular polarizers are complementary
        S_ = M2(JJ.JonesPolarizerRCP()) + M2(JJ.JonesPolarizerLCP())
        if np.max(np.abs(S_ - np.eye(2))) > TOL:
            part.violation(PID, 'polarizers-complementary', 'JonesPolarizerRCP+LCP', 'element=circular', {}, observed=S_,
                           expected=np.eye(2), tol=TOL)
    thetas = [2 * math.pi * k / 24 for k in range(24)]
    if fam == 'diattenuator':
        for tmin, tmax in ((0.0, 1.0), (0.2, 0.9), (0.5, 0.5), (0.1, 0.3), (1.0, 1.0)):
            J0 = M2(JJ.JonesLinearDiattenuator(tmin, tmax, 0.0))
            if np.max(np.abs(J0 - np.diag([tmax, tmin]))) > TOL:
                part.violation(PID, 'diattenuator-at-zero', 'JonesLinearDiattenuator', 'element=LinearDiattenuator,theta=0',
                               dict(t_min=tmin, t_max=tmax), observed=J0, expected=np.diag([tmax, tmin]), tol=TOL)
            for th in thetas[1:]:
                J = M2(JJ.JonesLinearDiattenuator(tmin, tmax, th))
                ref = rot(th) @ np.diag([tmax, tmin]) @ rot(-th)
                if np.max(np.abs(J - ref)) > TOL:
                    part.violation(PID, 'element-rotation-covariance', 'JonesLinearDiattenuator',
                                   'element=LinearDiattenuator', dict(t_min=tmin, t_max=tmax, theta=th), observed=J,
                                   expected=ref, tol=TOL)
                part.outcome('dia', tmin, tmax, th, J)
    if fam == 'retarder':
        rets = [2 * math.pi * k / 12 for k in range(12)]
        for d in rets:
            J0 = M2(JJ.JonesLinearRetarder(d, 0.0))
            for th in thetas:
                J = M2(JJ.JonesLinearRetarder(d, th))
                det = dict(retardance=d, theta=th)
                if np.max(np.abs(J @ J.conj().T - np.eye(2))) > TOL:
                    part.violation(PID, 'retarder-unitary', 'JonesLinearRetarder', 'element=LinearRetarder', det,
                                   observed=J @ J.conj().T, expected=np.eye(2), tol=TOL)
                ev = np.linalg.eigvals(J)
                dphi = abs(np.angle(ev[0] / ev[1]))
                want = abs(math.remainder(d, 2 * math.pi))
                if abs(dphi - want) > 1e-7:
                    part.violation(PID, 'retarder-retardance', 'JonesLinearRetarder', 'element=LinearRetarder', det,
                                   observed=float(dphi), expected=want, tol=1e-7)
                ref = rot(th) @ J0 @ rot(-th)
                if np.max(np.abs(J - ref)) > TOL:
                    part.violation(PID, 'element-rotation-covariance', 'JonesLinearRetarder', 'element=LinearRetarder', det,
                                   observed=J, expected=ref, tol=TOL)
                part.outcome('ret', d, th, J)
        for th in thetas:
            for cls, d in ((JJ.JonesQuarterWaveRetarder, math.pi / 2), (JJ.JonesHalfWaveRetarder, math.pi)):
                J = M2(cls(th))
                ref = M2(JJ.JonesLinearRetarder(d, th))
                if np.max(np.abs(J - ref)) > TOL:
                    part.violation(PID, 'named-retarder', cls.__name__, f'element={cls.__name__}', dict(theta=th),
                                   observed=J, expected=ref, tol=TOL)
    part.sample(dict(family=fam))


def state_spec(name_or_tuple):
    from optiland.rays import create_polarization, PolarizationState
    if isinstance(name_or_tuple, str):
        return create_polarization(name_or_tuple)
    ex, ey, px, py = name_or_tuple
    return PolarizationState(is_polarized=True, Ex=ex, Ey=ey, phase_x=px, phase_y=py)


def orth_partner(t):
    ex, ey, px, py = t
    return (ey, -ex, px, py)


def run_lens(part, unit):
    v = unit['variant']
    p = V(v)
    A = c04.alphabet(v)[:6]
    surfs = LZ.with_stop(LZ.fix_thickness_signs([A[i] for i in unit['word']]), 0)
    if unit.get('tilted'):
        # surfaces tilted about x and about y (a wedge and a tilted plate behind a lens)
        g = ['ideal', 1.5, 0.0]
        surfs = [S('sphere', R=p['R'], mat=g, t=5.0, stop=True), S('sphere', R=-p['R'], mat='air', t=6.0),
                 S('plane', mat=g, t=4.0, rx=0.25, ry=-0.15), S('plane', mat='air', t=10.0, rx=-0.1, ry=0.2)]
    coated = unit['mode'] == 'fresnel'
    if coated:
        surfs = [dict(s, coating='fresnel') if s['mat'] != 'mirror' else s for s in surfs]
    sp = LZ.spec(surfs, obj=LZ.INF, ap=('EPD', p['epd']), ftype='angle', fields=(0.0, 12.0), waves=((0.5876, True),))
    o = LZ.build(sp)
    part.states += 1
    c = f'coating={unit["mode"]}'
    det0 = dict(word=unit['word'], variant=v)

    def trace(state, Hy):
        o.set_polarization(state)
        rays = o.trace(0.0, Hy, 0.5876, 3, 'hexapolar')
        part.transitions += 1
        part.evals += 1
        return rays

    for Hy in (0.0, 1.0):
        I = {}
        for st in NAMED + LATTICE + [orth_partner(t) for t in LATTICE]:
            rays = trace(state_spec(st), Hy)
            I[st if isinstance(st, str) else tuple(st)] = np.asarray(rays.i, dtype=float).copy()
            # the reported intensity is |P E0|^2 with E0 the stated input state expressed in the launch frame
            # (documented basis: p = k0 x x^, s = p x k0, E0 = Ex e^{i phi_x} s + Ey e^{i phi_y} p), k0 taken from
            # the object-surface record
            sg = o.surface_group
            k0 = np.stack([sg.L[0], sg.M[0], sg.N[0]], axis=1)
            pst = state_spec(st)
            pv = np.cross(k0, np.array([1.0, 0.0, 0.0]))
            pv /= np.linalg.norm(pv, axis=1)[:, None]
            sv = np.cross(pv, k0)
            E0 = pst.Ex * np.exp(1j * pst.phase_x) * sv + pst.Ey * np.exp(1j * pst.phase_y) * pv
            Iexp = np.sum(np.abs(np.einsum('nij,nj->ni', rays.p, E0)) ** 2, axis=1)
            okf = np.isfinite(Iexp) & np.isfinite(rays.i)
            if np.any(okf) and np.max(np.abs(Iexp[okf] - rays.i[okf])) > TOL:
                j = int(np.argmax(np.abs(np.where(okf, Iexp - rays.i, 0))))
                part.violation(PID, 'intensity-is-|P E0|^2-of-stated-state', 'Optic.trace', c, dict(det0, Hy=Hy, state=st),
                               observed=float(rays.i[j]), expected=float(Iexp[j]), tol=TOL)
            if not coated:
                fin = np.isfinite(rays.L) & np.isfinite(rays.x)
                if np.any(fin):
                    dev = np.abs(rays.i[fin] - 1.0)
                    if np.max(dev) > TOL:
                        part.violation(PID, 'uncoated-intensity-preserved', 'Optic.trace', c, dict(det0, Hy=Hy, state=st),
                                       observed=float(rays.i[fin][np.argmax(dev)]), expected=1.0, tol=TOL)
                    # transversality of the propagated field for two independent inputs transverse to the launch ray
                    sg = o.surface_group
                    k0 = np.stack([sg.L[0], sg.M[0], sg.N[0]], axis=1)[fin]
                    k1 = np.stack([rays.L, rays.M, rays.N], axis=1)[fin]
                    a = np.cross(k0, np.array([0.3, 1.0, 0.2]))
                    a /= np.linalg.norm(a, axis=1)[:, None]
                    b = np.cross(k0, a)
                    Pm = rays.p[fin]
                    for E0 in (a, b, (a + 1j * b) / math.sqrt(2)):
                        E1 = np.einsum('nij,nj->ni', Pm, E0)
                        tr = np.abs(np.sum(E1 * k1, axis=1))
                        nrm = np.sqrt(np.sum(np.abs(E1) ** 2, axis=1))
                        if np.max(tr) > TOL:
                            part.violation(PID, 'field-transverse', 'PolarizedRays.p', c, dict(det0, Hy=Hy),
                                           observed=float(np.max(tr)), expected=0.0, tol=TOL)
                        if np.max(np.abs(nrm - 1)) > TOL:
                            part.violation(PID, 'uncoated-field-norm-preserved', 'PolarizedRays.p', c, dict(det0, Hy=Hy),
                                           observed=float(nrm[np.argmax(np.abs(nrm - 1))]), expected=1.0, tol=TOL)
        Iu = np.asarray(trace(state_spec('unpolarized'), Hy).i, dtype=float)
        pairs = [('H', 'V'), ('L+45', 'L-45'), ('RCP', 'LCP')] + [(tuple(t), tuple(orth_partner(t))) for t in LATTICE]
        for a_, b_ in pairs:
            mean = 0.5 * (I[a_] + I[b_])
            fin = np.isfinite(mean) & np.isfinite(Iu)
            if np.any(fin) and np.max(np.abs(mean[fin] - Iu[fin])) > TOL:
                part.violation(PID, 'unpolarized-is-mean-of-orthogonal-pair', 'Optic.trace', c,
                               dict(det0, Hy=Hy, pair=[a_, b_]), observed=float(Iu[fin][0]), expected=float(mean[fin][0]),
                               tol=TOL)
        finu = np.isfinite(Iu)
        if np.any(finu):
            # no upper bound is asserted for coated lenses: the library's intensity is the product of |t|^2 without the
            # (n2 cos t)/(n1 cos i) beam factor (it exceeds 1 inside glass and for strongly non-parallel surface pairs), and the
            # property states no bound; the uncoated case is the exact norm-preservation clause above
            if not coated and np.max(np.abs(Iu[finu] - 1)) > TOL:
                part.violation(PID, 'uncoated-intensity-preserved', 'Optic.trace', c, dict(det0, Hy=Hy),
                               observed=float(Iu[finu][np.argmax(np.abs(Iu[finu] - 1))]), expected=1.0, tol=TOL)
            part.outcome(unit['mode'], Hy, Iu[finu][:4])
    part.sample(dict(word=unit['word'], mode=unit['mode']))


def run_unit(unit):
    part = Part(unit)
    dict(fresnel=run_fresnel, element=run_element, lens=run_lens, dispersive=run_dispersive)[unit['kind']](part, unit)
    return part
