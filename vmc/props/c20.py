"""C20 - Zemax import reproduces the prescription written in the file.

Construction LTS over a text grammar: header choices (aperture line, field type, field lists incl. unsorted and duplicate
entries, 1-12 wavelengths with every primary index) x surface words over a Zemax symbol alphabet (STANDARD plane / sphere +- /
conic, EVENASPH with 8 PARM lines; glass known to the catalogue / unknown -> model glass / none; STOP on every surface; finite or
INFINITY object distance) x {utf-8, utf-16}. The text is written by vmc.ref.zmx, loaded by load_zemax_file, and every item of
the loaded lens is compared with the numbers written; paraxial f2/EPL/XPL against vmc.ref.abcd on the written numbers.
"""
import math
import os
import tempfile

import numpy as np

from vmc import lens as LZ
from vmc.core import Part, exc_text
from vmc.lens import V
from vmc.ref import abcd, zmx

PID = 'C20'
TOL = 1e-12
META = dict(
    rule='unit = one header variant with a block of surface words, or one surface word with all stop positions; evaluation = one '
         'file written, loaded and compared item by item; non-trivial = lens with power; distinct = (header, word, stop, encoding)',
    exhaustive=True,
    bounds=dict(quick='surface words of length 1-3 over 9 symbols x every stop position x 2 encodings with a fixed header; header lattice '
                      '(3 apertures x 2 field types x 7 field lists x 6 wavelength lists x every primary index) on 4 words; two 30-surface files; '
                      'non-sequential mode rejected',
                thorough='words of length 4 over 6 symbols added; 4 numeric variants'),
    tolerances=dict(values='1e-12 relative (numbers are written with repr and read with float)', glass='|n_d(resolved) - n_d(written)| <= 1e-3'),
    assumptions=['the last SURF of the file is the image surface', 'catalogue indices via a fresh Material (C18)'],
)

KNOWN = [('N-BK7', 1.5168, 64.17), ('SF11', 1.78472, 25.76), ('F2', 1.62004, 36.37), ('N-SF6', 1.80518, 25.36), ('N-LAK9', 1.691, 54.71),
         ('N-SK16', 1.62041, 60.32)]
UNKNOWN = [('___BLANK', 1.6200, 36.0), ('XQZ-17', 1.5300, 58.0)]


def alphabet(v):
    p = V(v)
    R = p['R']
    kn = KNOWN[v % len(KNOWN)]
    kn2 = KNOWN[(v + 2) % len(KNOWN)]
    return [
        dict(type='STANDARD', curv=1.0 / R, disz=p['t'][1], glass=kn),
        dict(type='STANDARD', curv=-1.0 / R, disz=p['t'][2]),
        dict(type='STANDARD', curv=0.0, disz=p['t'][0], glass=UNKNOWN[0]),
        dict(type='STANDARD', curv=-1.0 / (1.7 * R), disz=p['t'][0], conic=-1.3, glass=kn2),
        dict(type='EVENASPH', curv=1.0 / (2 * R), disz=p['t'][1], parm=[0.0, 1e-5, -2e-8, 3e-11, 0.0, 0.0, 0.0, 0.0]),
        dict(type='STANDARD', curv=0.0, disz=p['t'][1]),
        dict(type='EVENASPH', curv=0.0, disz=p['t'][0], conic=0.4, parm=[2e-4, 0.0, 1e-9, 0.0, 0.0, 0.0, 0.0, -1e-15], glass=(UNKNOWN[0][0],) + UNKNOWN[1][1:]),
        dict(type='STANDARD', curv=1.0 / p['Rs'], disz=p['t'][0], glass=kn),
        dict(type='STANDARD', curv=-1.0 / (3 * R), disz=p['t'][2], conic=0.6),
    ]


def base_header(v):
    p = V(v)
    return dict(aperture=('ENPD', p['epd']), ftyp=(0, 0), xfields=[0.0, 0.0, 0.0], yfields=[0.0, 0.7 * p['ang'], p['ang']],
                waves=[0.4861327, 0.5875618, 0.6562725], pwav=2, gcat=['SCHOTT'])


def header_lattice(v):
    p = V(v)
    out = []
    aps = [('ENPD', p['epd']), ('FNUM', p['fno']), ('OBNA', p['na'])]
    flists = [[0.0], [0.0, 5.0], [0.0, 3.5, 5.0], [5.0, 0.0, 3.5], [0.0, 5.0, 5.0, 2.0], [-4.0, 0.0, 4.0, 2.0, -2.0], [1.0, 2.0, 3.0, 4.0, 5.0]]
    wlists = [[0.55], [0.4861327, 0.6562725], [0.4861327, 0.5875618, 0.6562725], [0.65, 0.45, 0.55, 0.5],
              [0.40 + 0.03 * i for i in range(9)], [0.40 + 0.025 * i for i in range(12)]]
    for ap in aps:
        for ft in (0, 1):
            for fl in flists:
                out.append(dict(aperture=ap, ftyp=(ft, 0), xfields=[0.0] * len(fl), yfields=fl, waves=wlists[2], pwav=2, gcat=['SCHOTT']))
    # field points off the y axis (several points share a y value)
    for xs, ys in (([0.0, 5.0, -5.0], [0.0, 0.0, 0.0]), ([0.0, 3.0, 3.0, -3.0], [0.0, 4.0, -4.0, 4.0]), ([2.0, 2.0, 1.0], [1.0, 1.0, 1.0])):
        for ft in (0, 1):
            out.append(dict(aperture=aps[0], ftyp=(ft, 0), xfields=xs, yfields=ys, waves=wlists[2], pwav=2, gcat=['SCHOTT']))
    for wl in wlists:
        for pw in range(1, len(wl) + 1):
            out.append(dict(aperture=aps[0], ftyp=(0, 0), xfields=[0.0, 0.0], yfields=[0.0, 5.0], waves=wl, pwav=pw, gcat=['SCHOTT']))
            if len(wl) <= 4:
                out.append(dict(aperture=aps[0], ftyp=(0, 0), xfields=[0.0, 0.0], yfields=[0.0, 5.0], waves=wl, pwav=pw, gcat=['SCHOTT'], pwav_last=True))
    return out


def units(tier, variant):
    A = alphabet(variant)
    out = []
    ws = list(LZ.words(A, 1, 3))
    if tier == 'thorough':
        ws += list(LZ.words(A[:6], 4, 4))
    B = 6
    for i in range(0, len(ws), B):
        out.append(dict(kind='words', words=[list(w) for w in ws[i:i + B]], variant=variant))
    hl = header_lattice(variant)
    for i in range(0, len(hl), 8):
        out.append(dict(kind='headers', lo=i, hi=min(len(hl), i + 8), variant=variant))
    out.append(dict(kind='long', variant=variant))
    out.append(dict(kind='nsc', variant=variant))
    out.append(dict(kind='fuzzy-name', variant=variant))
    out.append(dict(kind='gcat', variant=variant))
    out.append(dict(kind='curved-image', variant=variant))
    return out


CATALOGUE_NAMES = [k[0] for k in KNOWN] + ['SF6', 'BAF2', 'TF3', 'S-TIH6', 'H-K9L']
_REF_GLASS = {}


def ref_material(glass, w, gcat=None):
    """Index of the medium the file asks for: the glass of that name in the catalogue the file names (GCAT), else the model glass."""
    from optiland.materials import Material, AbbeMaterial
    if glass is None:
        return 1.0
    name, nd, vd = glass
    if name in CATALOGUE_NAMES:
        key = (name, tuple(gcat or ()))
        if key not in _REF_GLASS:
            # the catalogues the file names, in the order listed; the first that knows the glass decides; else the name alone
            m = None
            for vendor in key[1]:
                try:
                    m = Material(name, vendor.lower())
                    break
                except ValueError:
                    continue
            _REF_GLASS[key] = m if m is not None else Material(name)
        return float(np.ravel(_REF_GLASS[key].n(w))[0])
    return float(np.ravel(AbbeMaterial(nd, vd).n(w))[0])


def check_file(part, header, surf_rows, obj_disz, stop_k, encoding, det, cond, keep=None, image_row=None):
    """Write, load, compare. surf_rows: optical surfaces (file surfaces 1..N-1); object and image rows are added here."""
    from optiland.fileio import load_zemax_file
    from optiland.materials import AbbeMaterial, Material
    rows = [dict(type='STANDARD', curv=0.0, disz=obj_disz)]
    for k, r in enumerate(surf_rows):
        rr = dict(r)
        rr['stop'] = (k == stop_k)
        rows.append(rr)
    rows.append(dict(image_row) if image_row else dict(type='STANDARD', curv=0.0, disz=0.0))
    txt = zmx.text(header, rows)
    fd, path = tempfile.mkstemp(suffix='.zmx', prefix='vmc_c20_')
    os.close(fd)
    try:
        with open(path, 'w', encoding=encoding) as f:
            f.write(txt)
        part.evals += 1
        part.transitions += 1
        try:
            o = load_zemax_file(path)
        except Exception as exc:  # noqa
            part.violation(PID, 'well-formed-file-loads', 'load_zemax_file', cond, det, observed=exc_text(exc), expected='a lens')
            return None
    finally:
        os.remove(path)
    sg = o.surface_group
    N = len(rows)

    def bad(clause, obs, exp, extra=None):
        part.violation(PID, clause, 'load_zemax_file', cond, dict(det, **(extra or {})), observed=obs, expected=exp, tol=TOL)

    part.count('cmp:file')
    if sg.num_surfaces != N:
        bad('surface-count', sg.num_surfaces, N)
        return o
    # radii / conics / coefficients
    for k in range(N):
        r = rows[k]
        g = sg.surfaces[k].geometry
        Rexp = math.inf if r.get('curv', 0.0) == 0 else 1.0 / r['curv']
        Rgot = float(g.radius)
        if not ((math.isinf(Rexp) and math.isinf(Rgot)) or abs(Rgot - Rexp) <= TOL * abs(Rexp)):
            bad('radius', Rgot, Rexp, dict(surface=k))
        kgot = float(getattr(g, 'k', 0.0))
        if abs(kgot - r.get('conic', 0.0)) > TOL:
            bad('conic', kgot, r.get('conic', 0.0), dict(surface=k))
        if r.get('type') == 'EVENASPH' and k < N - 1:
            cg = [float(c_) for c_ in getattr(g, 'c', [])]
            if len(cg) != 8 or any(abs(a - b) > TOL * max(1e-30, abs(b)) for a, b in zip(cg, r['parm'])):
                bad('aspheric-coefficients', cg, r['parm'], dict(surface=k))
    # positions = running sums (first optical surface at 0, object at -distance)
    z = [0.0]
    for k in range(1, N - 1):
        z.append(z[-1] + rows[k]['disz'])
    zexp = [(-math.inf if obj_disz == 'INFINITY' else -obj_disz)] + z
    zgot = [float(np.ravel(q)[0]) for q in sg.positions]
    for k in range(N):
        if not ((math.isinf(zexp[k]) and math.isinf(zgot[k]) and zexp[k] == zgot[k]) or abs(zgot[k] - zexp[k]) <= 1e-12 * max(1.0, abs(zexp[k]))):
            bad('thickness-running-sum', zgot, zexp, dict(surface=k))
            break
    # media
    w0 = 0.5875618
    for k in range(1, N - 1):
        gl = rows[k].get('glass')
        m = sg.surfaces[k].material_post
        n_got = float(np.ravel(m.n(w0))[0])
        if gl is None:
            if abs(n_got - 1.0) > 1e-12:
                bad('medium-air', n_got, 1.0, dict(surface=k))
        elif gl[0] in CATALOGUE_NAMES:
            if not isinstance(m, Material) or abs(n_got - gl[1]) > 1e-3:
                bad('medium-catalogue-glass', [type(m).__name__, n_got], ['Material', gl[1]], dict(surface=k, glass=gl[0]))
        else:
            if not isinstance(m, AbbeMaterial) or abs(float(m.index) - gl[1]) > TOL or abs(float(m.abbe) - gl[2]) > TOL:
                bad('medium-model-glass', [type(m).__name__, getattr(m, 'index', None), getattr(m, 'abbe', None)], ['AbbeMaterial', gl[1], gl[2]],
                    dict(surface=k, glass=gl[0]))
    # stop
    if sg.stop_index != stop_k + 1:
        bad('stop-surface', sg.stop_index, stop_k + 1)
    # aperture
    kind, val = header['aperture']
    exp_kind = dict(ENPD='EPD', FNUM='imageFNO', OBNA='objectNA')[kind]
    if o.aperture is None or o.aperture.ap_type != exp_kind or abs(o.aperture.value - val) > TOL * abs(val):
        bad('aperture', [getattr(o.aperture, 'ap_type', None), getattr(o.aperture, 'value', None)], [exp_kind, val])
    # fields: type and the set of values
    exp_ft = 'angle' if header['ftyp'][0] == 0 else 'object_height'
    if o.field_type != exp_ft:
        bad('field-type', o.field_type, exp_ft)
    got_f = sorted(set((float(f.x), float(f.y)) for f in o.fields.fields))
    exp_f = sorted(set(zip([float(a) for a in header['xfields']], [float(b) for b in header['yfields']])))
    if got_f != exp_f:
        bad('field-values', got_f, exp_f)
    if len(o.fields.fields) != len(exp_f):
        bad('field-count', len(o.fields.fields), len(exp_f))
    # wavelengths and primary
    got_w = [float(wv.value) for wv in o.wavelengths.wavelengths]
    if len(got_w) != len(header['waves']) or any(abs(a - b) > TOL for a, b in zip(got_w, header['waves'])):
        bad('wavelengths', got_w, header['waves'])
    else:
        prim = [i for i, wv in enumerate(o.wavelengths.wavelengths) if wv.is_primary]
        if prim != [header['pwav'] - 1]:
            bad('primary-wavelength', prim, [header['pwav'] - 1])
    # paraxial properties from the written numbers
    if got_w and len(got_w) == len(header['waves']) and sg.num_surfaces == N and sg.stop_index is not None:
        wp = header['waves'][header['pwav'] - 1]
        rws = []
        n_prev = 1.0
        for k in range(N):
            r = rows[k]
            n_post = ref_material(r.get('glass'), wp, header.get('gcat')) if 0 < k < N - 1 else (1.0 if k == 0 else 1.0)
            rws.append(dict(shape='conic' if r.get('curv', 0.0) != 0 else 'plane', R=(math.inf if r.get('curv', 0.0) == 0 else 1.0 / r['curv']),
                            z=zexp[k], n_pre=n_prev, n_post=n_post, mirror=False, stop=(k == stop_k + 1)))
            n_prev = n_post
        # even asphere: the r^2 coefficient adds to the paraxial curvature in the *definition* of the surface, but the library's
        # paraxial model uses the base radius only (as C04 documents); files with a non-zero PARM 1 are not judged here
        if not any(r.get('type') == 'EVENASPH' and r['parm'][0] != 0 for r in rows[1:N - 1]):
            card = abcd.cardinal(rws)
            if abs(card['C']) > 1e-9:
                part.count('cmp:paraxial')
                part.count('nontrivial')
                f2 = float(o.paraxial.f2())
                if abs(f2 - card['f2']) > 1e-8 * max(1.0, abs(card['f2'])):
                    bad('paraxial-f2-from-written-numbers', f2, card['f2'])
                epl = abcd.EPL(rws)
                if math.isfinite(epl) and abs(epl) < 1e7:
                    g_ = float(o.paraxial.EPL())
                    if abs(g_ - epl) > 1e-8 * max(1.0, abs(epl)):
                        bad('paraxial-EPL-from-written-numbers', g_, epl)
                xpl = abcd.XPL(rws)
                if math.isfinite(xpl) and abs(xpl) < 1e7:
                    g_ = float(o.paraxial.XPL())
                    if abs(g_ - xpl) > 1e-8 * max(1.0, abs(xpl)):
                        bad('paraxial-XPL-from-written-numbers', g_, xpl)
    return o


def run_words(part, unit):
    v = unit['variant']
    A = alphabet(v)
    H = base_header(v)
    p = V(v)
    for w in unit['words']:
        surf = [A[i] for i in w]
        part.states += 1
        for stop in range(len(w)):
            for enc in ('utf-8', 'utf-16'):
                for obj in ('INFINITY', p['od'][0]):
                    if enc == 'utf-16' and obj != 'INFINITY' and stop != 0:
                        continue
                    det = dict(word=w, stop=stop, encoding=enc, object=obj, variant=v)
                    check_file(part, H, surf, obj, stop, enc, det, f'encoding={enc}')
                    part.outcome(tuple(w), stop, enc, obj)
    part.sample(dict(words=unit['words'][:2]))


def run_headers(part, unit):
    v = unit['variant']
    A = alphabet(v)
    hl = header_lattice(v)[unit['lo']:unit['hi']]
    p = V(v)
    for H in hl:
        part.states += 1
        for w in ([0, 1], [3, 4, 8], [2], [0, 5, 7, 1]):
            surf = [A[i] for i in w]
            obj = 'INFINITY' if H['ftyp'][0] == 0 and H['aperture'][0] != 'OBNA' else p['od'][0]
            det = dict(word=w, header=dict(aperture=list(H['aperture']), ftyp=list(H['ftyp']), yfields=H['yfields'], waves=H['waves'], pwav=H['pwav']),
                       object=obj, variant=v)
            check_file(part, H, surf, obj, len(w) - 1, 'utf-8', det, f"aperture={H['aperture'][0]},fieldtype={H['ftyp'][0]}")
            part.outcome(H['aperture'][0], H['ftyp'], tuple(H['yfields']), len(H['waves']), H['pwav'], tuple(w))
    part.sample(dict(headers=[unit['lo'], unit['hi']]))


def run_long(part, unit):
    v = unit['variant']
    A = alphabet(v)
    H = base_header(v)
    for seq, enc in (([i % len(A) for i in range(29)], 'utf-8'), ([(3 * i + 1) % len(A) for i in range(29)], 'utf-16')):
        surf = [A[i] for i in seq]
        part.states += 1
        check_file(part, H, surf, 'INFINITY', 14, enc, dict(word='30-surface', encoding=enc, variant=v), f'encoding={enc}')
        part.outcome('long', enc)
    part.sample(dict(long='two 30-surface files'))


def run_nsc(part, unit):
    from optiland.fileio import load_zemax_file
    H = dict(base_header(unit['variant']), mode='NSC')
    rows = [dict(type='STANDARD', curv=0.0, disz='INFINITY'), dict(type='STANDARD', curv=0.02, disz=5.0, stop=True), dict(type='STANDARD', curv=0.0, disz=0.0)]
    for enc in ('utf-8', 'utf-16'):
        fd, path = tempfile.mkstemp(suffix='.zmx', prefix='vmc_c20_')
        os.close(fd)
        try:
            with open(path, 'w', encoding=enc) as f:
                f.write(zmx.text(H, rows))
            part.evals += 1
            part.transitions += 1
            part.states += 1
            try:
                load_zemax_file(path)
                part.violation(PID, 'non-sequential-rejected', 'load_zemax_file', f'encoding={enc}', dict(mode='NSC', encoding=enc), observed='a lens was returned',
                               expected='ValueError')
            except ValueError:
                part.count('nsc-rejections')
        finally:
            os.remove(path)
        part.outcome('nsc', enc)
    part.sample(dict(mode='NSC'))


def run_fuzzy(part, unit):
    """A glass name that is unknown to the catalogue but is a substring of catalogue names."""
    v = unit['variant']
    A = alphabet(v)
    H = base_header(v)
    for name in ('N-BK', 'SF1', 'LAK'):
        surf = [dict(A[0], glass=(name, 1.6200, 36.0)), A[1]]
        part.states += 1
        check_file(part, H, surf, 'INFINITY', 0, 'utf-8', dict(word='fuzzy', glass=name, variant=v), 'glass-name-is-substring-of-catalogue-names')
        part.outcome('fuzzy', name)
    part.sample(dict(fuzzy=['N-BK', 'SF1', 'LAK']))


def run_curved_image(part, unit):
    """The last SURF of the file (the image surface) is a surface like the others: its curvature and conic are read."""
    v = unit['variant']
    A = alphabet(v)
    H = base_header(v)
    for img in (dict(type='STANDARD', curv=-1.0 / 50.0, disz=0.0, conic=-0.5), dict(type='STANDARD', curv=1.0 / 80.0, disz=0.0)):
        for enc in ('utf-8', 'utf-16'):
            part.states += 1
            check_file(part, H, [A[0], A[1]], 'INFINITY', 0, enc, dict(word='curved-image', image=img, encoding=enc, variant=v), 'image-surface-with-curvature',
                       image_row=img)
    part.outcome('curved-image')
    part.sample(dict(curved_image=True))


def run_gcat(part, unit):
    """Exact catalogue names that exist under several vendors (or also as a crystal / a gas): the GCAT line says which one."""
    v = unit['variant']
    A = alphabet(v)
    for vendor, name, nd, vd in (('SCHOTT', 'SF6', 1.80518, 25.43), ('CDGM', 'F2', 1.61293, 36.96), ('CDGM', 'BAF2', 1.56970, 49.4),
                                 ('LZOS', 'TF3', 1.71741, 29.5), ('SCHOTT', 'F2', 1.62004, 36.37), ('HIKARI', 'F2', 1.62004, 36.30)):
        H = dict(base_header(v), gcat=[vendor])
        surf = [dict(A[0], glass=(name, nd, vd)), A[1]]
        part.states += 1
        check_file(part, H, surf, 'INFINITY', 0, 'utf-8', dict(word='gcat', glass=name, vendor=vendor, variant=v), 'catalogue-named-in-GCAT')
        part.outcome('gcat', vendor, name)
    # several catalogues named: a glass the FIRST one does not know is still the catalogue glass of a later one
    for vendors, glasses in ((['SCHOTT', 'OHARA'], [('S-TIH6', 1.80518, 25.42)]), (['OHARA', 'SCHOTT'], [('N-BK7', 1.5168, 64.17)]),
                             (['SCHOTT', 'OHARA'], [('N-BK7', 1.5168, 64.17), ('S-TIH6', 1.80518, 25.42)]),
                             (['OHARA', 'SCHOTT'], [('N-BK7', 1.5168, 64.17), ('S-TIH6', 1.80518, 25.42)]),
                             (['SCHOTT', 'OHARA', 'CDGM'], [('H-K9L', 1.5168, 64.2), ('S-TIH6', 1.80518, 25.42)]),
                             (['HIKARI', 'CDGM', 'SCHOTT'], [('F2', 1.62004, 36.30), ('N-BK7', 1.5168, 64.17)])):
        for enc in ('utf-8', 'utf-16'):
            H = dict(base_header(v), gcat=list(vendors))
            if len(glasses) == 1:
                surf = [dict(A[0], glass=glasses[0]), A[1]]
            else:
                surf = [dict(A[0], glass=glasses[0]), dict(A[0], curv=-0.8 * A[0]['curv'], glass=glasses[1]), A[1]]
            part.states += 1
            part.count('multi-catalogue-files')
            check_file(part, H, surf, 'INFINITY', 0, enc, dict(word='gcat', glasses=[g[0] for g in glasses], vendors=list(vendors), variant=v),
                       'several-catalogues-named-in-GCAT')
            part.outcome('gcat', tuple(vendors), tuple(g[0] for g in glasses), enc)
    part.sample(dict(gcat='vendor-qualified names; several catalogues'))


def run_unit(unit):
    part = Part(unit)
    if unit['kind'] == 'gcat':
        run_gcat(part, unit)
        return part
    if unit['kind'] == 'curved-image':
        run_curved_image(part, unit)
        return part
    dict(words=run_words, headers=run_headers, long=run_long, nsc=run_nsc)[unit['kind']](part, unit) if unit['kind'] != 'fuzzy-name' else run_fuzzy(part, unit)
    return part
