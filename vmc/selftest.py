"""setup_cmd: import everything, validate MANIFEST.json against its schema when jsonschema is importable,
run the reference models' cross self-tests."""
import importlib
import json
import os
import sys

from vmc import core


def main():
    man = json.load(open(os.path.join(core.VERIF, 'MANIFEST.json')))
    for c in man['checks']:
        importlib.import_module('vmc.props.' + c['property_id'].lower())
    json.load(open(os.path.join(core.VERIF, 'known_findings.json')))
    try:
        import jsonschema
        schema = '/root/.vp/MANIFEST.schema.json'
        if os.path.exists(schema):
            jsonschema.validate(man, json.load(open(schema)))
    except ImportError:
        pass
    from vmc.ref import selfcheck
    selfcheck.run()
    print('setup ok:', len(man['checks']), 'checks')


if __name__ == '__main__':
    sys.exit(main())
