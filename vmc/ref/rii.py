"""Reference implementation of the refractiveindex.info database entry semantics, written from the database's
"Dispersion formulas" document (formulas 1-9) and table conventions. No optiland import.

entry = load(path) -> dict(formula=int|None, coeffs=[...], n_table=(w, n)|None, k_table=(w, k)|None)
n(entry, w), k(entry, w)
"""
import numpy as np
import yaml


def _table(text, ncol):
    rows = []
    for line in text.strip().splitlines():
        parts = line.split()
        if not parts:
            continue
        rows.append([float(p) for p in parts[:ncol]])
    a = np.array(rows, dtype=float)
    # the table defines a piecewise-linear function of wavelength; a few catalogue files list rows out of order
    order = sorted(range(len(a)), key=lambda i: a[i, 0])
    # 'unsorted' also covers tables that list a wavelength twice (a step in the data)
    _table.last_unsorted = order != list(range(len(a))) or len(set(a[:, 0].tolist())) < len(a)
    return a[order]


def load(path):
    with open(path, 'r') as f:
        doc = yaml.safe_load(f)
    e = dict(formula=None, coeffs=None, n_table=None, k_table=None, kinds=[])
    for blk in doc['DATA']:
        t = blk['type']
        e['kinds'].append(t)
        if t.startswith('formula '):
            e['formula'] = int(t.split()[1])
            e['coeffs'] = [float(v) for v in str(blk['coefficients']).split()]
        elif t == 'tabulated n':
            a = _table(blk['data'], 2)
            e['n_table'] = (a[:, 0], a[:, 1])
            e['unsorted'] = e.get('unsorted', False) or _table.last_unsorted
        elif t == 'tabulated k':
            a = _table(blk['data'], 2)
            e['k_table'] = (a[:, 0], a[:, 1])
            e['unsorted'] = e.get('unsorted', False) or _table.last_unsorted
        elif t == 'tabulated nk':
            a = _table(blk['data'], 3)
            e['unsorted'] = e.get('unsorted', False) or _table.last_unsorted
            e['n_table'] = (a[:, 0], a[:, 1])
            e['k_table'] = (a[:, 0], a[:, 2])
    return e


def _c(c, i):
    return c[i] if i < len(c) else 0.0


def n(e, w):
    w = np.asarray(w, dtype=float)
    if e['formula'] is None:
        x, y = e['n_table']
        return np.interp(w, x, y)
    c = e['coeffs']
    f = e['formula']
    w2 = w * w
    if f == 1:
        s = 1 + c[0]
        for i in range(1, len(c) - 1, 2):
            s = s + c[i] * w2 / (w2 - c[i + 1] ** 2)
        return np.sqrt(s)
    if f == 2:
        s = 1 + c[0]
        for i in range(1, len(c) - 1, 2):
            s = s + c[i] * w2 / (w2 - c[i + 1])
        return np.sqrt(s)
    if f == 3:
        s = c[0] + 0 * w
        for i in range(1, len(c) - 1, 2):
            s = s + c[i] * w ** c[i + 1]
        return np.sqrt(s)
    if f == 4:
        s = c[0] + 0 * w
        if len(c) > 1:
            s = s + _c(c, 1) * w ** _c(c, 2) / (w2 - _c(c, 3) ** _c(c, 4))
        if len(c) > 5:
            s = s + _c(c, 5) * w ** _c(c, 6) / (w2 - _c(c, 7) ** _c(c, 8))
        for i in range(9, len(c) - 1, 2):
            s = s + c[i] * w ** c[i + 1]
        return np.sqrt(s)
    if f == 5:
        s = c[0] + 0 * w
        for i in range(1, len(c) - 1, 2):
            s = s + c[i] * w ** c[i + 1]
        return s
    if f == 6:
        s = 1 + c[0] + 0 * w
        for i in range(1, len(c) - 1, 2):
            s = s + c[i] / (c[i + 1] - w ** -2.0)
        return s
    if f == 7:
        L = 1.0 / (w2 - 0.028)
        s = c[0] + _c(c, 1) * L + _c(c, 2) * L * L
        for i in range(3, len(c)):
            s = s + c[i] * w ** (2 * (i - 2))
        return s
    if f == 8:
        b = c[0] + _c(c, 1) * w2 / (w2 - _c(c, 2)) + _c(c, 3) * w2
        return np.sqrt((1 + 2 * b) / (1 - b))
    if f == 9:
        s = c[0] + _c(c, 1) / (w2 - _c(c, 2)) + _c(c, 3) * (w - _c(c, 4)) / ((w - _c(c, 4)) ** 2 + _c(c, 5))
        return np.sqrt(s)
    raise ValueError(f)


def k(e, w):
    if e['k_table'] is None:
        return None
    x, y = e['k_table']
    return np.interp(np.asarray(w, dtype=float), x, y)
