"""Reference paraxial model: y-nu ray transfer with signed indices (each mirror negates every following index),
built from prescription rows only (vertex positions z, radii, indices). No optiland import.

Conventions (those of the library's documented results):
  * u is the true slope dy/dz in global coordinates; n u' - n u = -y c (n' - n); a mirror has n' = -n
  * F1 is measured from the first optical surface (z = 0), F2 and XPL from the image surface,
    EPL in global z; f2 = -1/u'_k of the unit-height parallel ray, f1 = det/C, P = F - f, N = P + f1 + f2
"""
import math

import numpy as np


def curvature(row):
    R = row.get('R', float('inf'))
    if row['shape'] == 'plane' or not math.isfinite(R):
        return 0.0
    return 1.0 / R


def signed_indices(rows):
    """n_pre[k], n_post[k] with sign reversal after every mirror."""
    sgn = 1.0
    pre, post = [], []
    for r in rows:
        pre.append(sgn * r['n_pre'])
        if r['mirror']:
            sgn = -sgn
        post.append(sgn * r['n_post'])
    return pre, post


def trace(rows, y, u, z, start=1, stop=None):
    """Trace (y,u) given at axial position z through surfaces start..stop (inclusive, default last).
    Returns lists ys, us: height at and slope *after* each surface start..stop."""
    pre, post = signed_indices(rows)
    if stop is None:
        stop = len(rows) - 1
    ys, us = [], []
    for k in range(start, stop + 1):
        r = rows[k]
        y = y + u * (r['z'] - z)
        z = r['z']
        c = curvature(r)
        u = (pre[k] * u - y * c * (post[k] - pre[k])) / post[k]
        ys.append(y)
        us.append(u)
    return ys, us


def matrix(rows, start, stop, z_in=None, after_start=False):
    """True-slope transfer matrix [[A,B],[C,D]] from the plane z_in (default: vertex of `start`), in the medium in
    front of `start`, to just after surface `stop`. With after_start=True the ray starts just *after* surface
    `start` (used for the rear group behind the stop)."""
    if z_in is None:
        z_in = rows[start]['z']
    cols = []
    for (y0, u0) in ((1.0, 0.0), (0.0, 1.0)):
        if after_start:
            ys, us = trace(rows, y0, u0, z_in, start + 1, stop) if stop > start else ([y0], [u0])
        else:
            ys, us = trace(rows, y0, u0, z_in, start, stop)
        cols.append((ys[-1], us[-1]))
    (A, C), (B, D) = cols
    return A, B, C, D


def cardinal(rows):
    """f1, f2, F1, F2, P1, P2, N1, N2 from the matrix first-surface-plane -> image plane."""
    last = len(rows) - 1
    A, B, C, D = matrix(rows, 1, last)
    det = A * D - B * C
    out = {}
    with np.errstate(all='ignore'):
        out['f2'] = -1.0 / C if C != 0 else float('inf')
        out['F2'] = -A / C if C != 0 else float('inf')
        out['f1'] = det / C if C != 0 else float('inf')
        out['F1'] = D / C if C != 0 else float('inf')
    out['P1'] = out['F1'] - out['f1']
    out['P2'] = out['F2'] - out['f2']
    out['N1'] = out['P1'] + out['f1'] + out['f2']
    out['N2'] = out['P2'] + out['f1'] + out['f2']
    out['C'] = C
    return out


def stop_index(rows):
    for i, r in enumerate(rows):
        if r['stop']:
            return i
    return None


def EPL(rows):
    s = stop_index(rows)
    if s == 1:
        return rows[1]['z']
    # front group: first surface .. surface s-1, then transfer to the stop plane
    ysA, _ = trace(rows, 1.0, 0.0, rows[1]['z'], 1, s - 1)
    ysB, usB = trace(rows, 0.0, 1.0, rows[1]['z'], 1, s - 1)
    _, usA = trace(rows, 1.0, 0.0, rows[1]['z'], 1, s - 1)
    d = rows[s]['z'] - rows[s - 1]['z']
    A = ysA[-1] + usA[-1] * d
    B = ysB[-1] + usB[-1] * d
    return rows[1]['z'] + (B / A if A != 0 else float('inf'))


def XPL(rows):
    s = stop_index(rows)
    last = len(rows) - 1
    if s == last - 1:
        return rows[s]['z'] - rows[last]['z']
    # ray leaving the stop centre with slope 1 *after* the stop surface (its own power does not move its centre)
    ys, us = trace(rows, 0.0, 1.0, rows[s]['z'], s + 1, last)
    return -ys[-1] / us[-1] if us[-1] != 0 else float('inf')


def pupil_degenerate(rows):
    """Entrance pupil at infinity (telecentric), absurdly far, or on a finite object plane: the marginal / chief ray
    definitions divide by (EPL - z_object); such states are outside any paraxial statement."""
    e = EPL(rows)
    if not math.isfinite(e) or abs(e) > 1e6:
        return True
    z0 = rows[0]['z']
    return math.isfinite(z0) and abs(e - z0) < 1e-9 * max(1.0, abs(z0))


def EPD(rows, ap, f2_for_fno=None):
    kind, val = ap
    if kind == 'EPD':
        return val
    if kind == 'imageFNO':
        return (abs(cardinal(rows)['f2']) if f2_for_fno is None else f2_for_fno) / val
    if kind == 'objectNA':
        n0 = rows[0]['n_post']
        return 2 * (EPL(rows) - rows[0]['z']) * math.tan(math.asin(val / n0))
    raise ValueError(kind)


def marginal(rows, ap):
    """(ys, us) at surfaces 1..last, plus the launch state (y0,u0,z0)."""
    epd = EPD(rows, ap)
    if math.isinf(rows[0]['z']):
        y0, u0, z0 = epd / 2, 0.0, rows[1]['z'] - 10.0
    else:
        z0 = rows[0]['z']
        y0, u0 = 0.0, epd / (2 * (EPL(rows) - z0))
    ys, us = trace(rows, y0, u0, z0)
    return ys, us, (y0, u0, z0)


def chief(rows, ftype, max_field):
    """Chief ray through the entrance-pupil centre: object-space slope tan(max field) for angular fields;
    through the object point at height -max_field for height fields (the library's paraxial sign convention:
    Paraxial._get_object_position uses y = -field). Returns (ys, us) at surfaces 1..last."""
    epl = EPL(rows)
    if ftype == 'angle':
        ub = math.tan(math.radians(max_field))
    else:
        ub = max_field / (epl - rows[0]['z'])
    y1 = ub * (rows[1]['z'] - epl)
    return trace(rows, y1, ub, rows[1]['z'])


def lagrange(rows, ya, ua, yb, ub):
    """n (yb ua - ya ub) after every surface 1..last from *given* arrays (signed indices)."""
    _, post = signed_indices(rows)
    return [post[k] * (yb[k - 1] * ua[k - 1] - ya[k - 1] * ub[k - 1]) for k in range(1, len(rows))]
