"""Welford's Seidel surface contributions from paraxial ray data with signed indices (no optiland import).

For surface k with curvature c, indices n (before), n' (after; a mirror has n' = -n), marginal ray (y, u -> u'),
chief ray (yb, ub -> ub'):
    A  = n (u + c y),   Ab = n (ub + c yb),   H = n (ub y - u yb)   (Lagrange invariant, one value)
    S_I   = -A^2  y D(u/n)          S_II = -A Ab y D(u/n)         S_III = -Ab^2 y D(u/n)
    S_IV  = -H^2 c D(1/n)           S_V  = (Ab/A) (S_III + S_IV)   [A != 0]
    C_I   =  A y D(dn/n)            C_II =  Ab y D(dn/n)
with D(x) = x' - x. Conversion to the transverse measures used by the library (Smith):
    T* = S_* / (2 n'_k u'_k)   (TSC from S_I, CC from S_II, TAC from S_III, TPC from S_IV, DC from S_V),
    TAchC = C_I / (n'_k u'_k),  TchC = C_II / (n'_k u'_k),
The library's fixed global convention, measured once on a refracting doublet and frozen: its transverse terms equal
+S/(2 n' u') (colour: +C/(n' u')), hence its Seidel *sums* S_lib = -2 n' u' sum T = -S_Welford.
"""
import numpy as np

SIGN = 1.0


def contributions(c, n_pre, n_post, dn_pre, dn_post, ya, ua_pre, ua_post, yb, ub_pre, ub_post):
    """All arguments are arrays over the optical surfaces 1..K (signed indices). Returns dict of per-surface arrays."""
    c, n, n2 = map(np.asarray, (c, n_pre, n_post))
    ya, u, u2, yb, v, v2 = map(np.asarray, (ya, ua_pre, ua_post, yb, ub_pre, ub_post))
    dn, dn2 = np.asarray(dn_pre), np.asarray(dn_post)
    A = n * (u + c * ya)
    Ab = n * (v + c * yb)
    H = n * (v * ya - u * yb)
    Dun = u2 / n2 - u / n
    D1n = 1.0 / n2 - 1.0 / n
    S1 = -A * A * ya * Dun
    S2 = -A * Ab * ya * Dun
    S3 = -Ab * Ab * ya * Dun
    S4 = -H * H * c * D1n
    with np.errstate(all='ignore'):
        S5 = np.where(A != 0, (Ab / np.where(A != 0, A, 1.0)) * (S3 + S4), np.nan)
    Ddn = dn2 / n2 - dn / n
    C1 = A * ya * Ddn
    C2 = Ab * ya * Ddn
    return dict(S1=S1, S2=S2, S3=S3, S4=S4, S5=S5, C1=C1, C2=C2, H=H)


def transverse(con, n_last, u_last):
    k = n_last * u_last
    return dict(TSC=SIGN * con['S1'] / (2 * k), CC=SIGN * con['S2'] / (2 * k), TAC=SIGN * con['S3'] / (2 * k),
                TPC=SIGN * con['S4'] / (2 * k), DC=SIGN * con['S5'] / (2 * k),
                TAchC=SIGN * con['C1'] / k, TchC=SIGN * con['C2'] / k)
