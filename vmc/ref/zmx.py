"""Writer of sequential Zemax .zmx text from plain prescription rows (no optiland import).

rows: list of dicts for surfaces 0 (object) .. N (image): type ('STANDARD'|'EVENASPH'), curv, disz (float or 'INFINITY'),
conic (optional), parm (list of 8, EVENASPH), glass (None | (name, nd, vd)), stop (bool)
header: dict(aperture=('ENPD'|'FNUM'|'OBNA', value), ftyp=(type, telecentric), xfields, yfields, waves, pwav (1-based),
gcat=[...], mode='SEQ')
"""


def fmt(v):
    return repr(float(v))


def text(header, rows):
    L = []
    L.append(f"MODE {header.get('mode', 'SEQ')}")
    L.append('UNIT MM X W X CM MR CPMM')
    kind, val = header['aperture']
    if kind == 'ENPD':
        L.append(f'ENPD {fmt(val)}')
    elif kind == 'FNUM':
        L.append(f'FNUM {fmt(val)} 0')
    elif kind == 'OBNA':
        L.append(f'OBNA {fmt(val)} 0')
    if header.get('gcat'):
        L.append('GCAT ' + ' '.join(header['gcat']))
    nf = len(header['yfields'])
    nw = len(header['waves'])
    ft, tele = header['ftyp']
    L.append(f'FTYP {ft} {tele} {nf} {nw} 0 0 0')
    pad = max(0, 12 - nf)
    L.append('XFLN ' + ' '.join(fmt(v) for v in list(header['xfields']) + [0.0] * pad))
    L.append('YFLN ' + ' '.join(fmt(v) for v in list(header['yfields']) + [0.0] * pad))
    # header lines are keyword records: their order is not fixed (files in the wild carry PWAV before or after the WAVM table)
    if not header.get('pwav_last'):
        L.append(f"PWAV {header['pwav']}")
    for i, w in enumerate(header['waves'], start=1):
        L.append(f'WAVM {i} {fmt(w)} 1')
    for i in range(nw + 1, 25):
        L.append(f'WAVM {i} 0.55000000000000004 1')
    if header.get('pwav_last'):
        L.append(f"PWAV {header['pwav']}")
    for k, r in enumerate(rows):
        L.append(f'SURF {k}')
        if r.get('stop'):
            L.append('  STOP')
        L.append(f"  TYPE {r.get('type', 'STANDARD')}")
        L.append(f"  CURV {fmt(r.get('curv', 0.0))}")
        if r.get('type') == 'EVENASPH':
            for i, pv in enumerate(r['parm'], start=1):
                L.append(f'  PARM {i} {fmt(pv)}')
        d = r.get('disz', 0.0)
        L.append('  DISZ ' + ('INFINITY' if d == 'INFINITY' else fmt(d)))
        if r.get('conic'):
            L.append(f"  CONI {fmt(r['conic'])}")
        if r.get('glass'):
            name, nd, vd = r['glass']
            L.append(f'  GLAS {name} 1 0 {fmt(nd)} {fmt(vd)} 0 0 0 0 0 0')
    return '\n'.join(L) + '\n'
