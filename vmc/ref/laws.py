"""Per-surface laws of a sequential real ray trace, evaluated on *recorded* global points/directions.

For every surface k >= 1 and every ray, with (P_{k-1}, d_{k-1}) the record at the previous surface:
  line      P_k lies on the forward line from P_{k-1} along d_{k-1}
  on-surf   the local coordinates of P_k satisfy z = sag(x, y)
  unit      |d_k| = 1
  snell     n1 (d_in x N) = n2 (d_out x N), same half-space   (reflection: d_out = d_in - 2 (d_in.N) N)
  opl       opd_k = sum_{j<=k} n_{j-1} |P_j - P_{j-1}|
  exists    if the reference finds a forward intersection on the prescribed sheet and a refracted direction,
            the record is finite; if it finds none (or total internal reflection), the record is non-finite
A ray is judged at surface k only if its record at k-1 is finite (a failed ray must stay non-finite).
"""
import numpy as np

from vmc.ref import geom


def check_trace(rows, rec, tol_alg=1e-9, tol_nr=1e-6, image_interacts=False):
    """rows: reference prescription rows (at the ray wavelength); rec: dict of arrays x,y,z,L,M,N,opd with
    shape (nsurf, nrays). Returns (violations, stats); violation = dict(clause, k, ray, err, observed, expected)."""
    out = []
    stats = dict(judged=0, finite=0, failed_expected=0, undecided=0, tir_expected=0)
    X, Y, Z, L, M, N = (np.asarray(rec[k], dtype=float) for k in 'xyzLMN')
    OPD = np.asarray(rec['opd'], dtype=float)
    ns, nr = X.shape
    if ns != len(rows):
        out.append(dict(clause='record-shape', k=0, ray=0, err=abs(ns - len(rows)), observed=ns, expected=len(rows)))
        return out, stats
    P = np.stack([X, Y, Z], axis=2)      # (ns, nr, 3)
    D = np.stack([L, M, N], axis=2)
    fin = np.all(np.isfinite(P), axis=2) & np.all(np.isfinite(D), axis=2)
    alive = fin[0].copy()
    opl = np.zeros(nr)

    def add(clause, k, idx, err, obs, exp):
        i = int(idx[np.nanargmax(err)]) if len(idx) else 0
        out.append(dict(clause=clause, k=k, ray=i, err=float(np.nanmax(err)), observed=obs(i), expected=exp(i),
                        nrays=int(len(idx))))

    for k in range(1, ns):
        row = rows[k]
        is_nr = row['shape'] in ('asph', 'poly', 'cheb')
        is_img = False  # the image surface interacts like any other surface (medium given for it)
        scale = 1.0 + np.abs(P[k - 1]).max(initial=0.0) if np.any(alive) else 1.0
        idx_prev = np.where(alive)[0]
        if len(idx_prev) == 0:
            break
        # ---- reference step from the recorded previous state ------------------------------------------
        Pl, Dl = geom.to_local(row, P[k - 1][idx_prev], D[k - 1][idx_prev])
        t_ref, st = geom.intersect(row, Pl, Dl)
        ok_hit = st == 1
        Ql = Pl + np.where(ok_hit, t_ref, 0.0)[:, None] * Dl
        Nl = geom.normal(row, np.where(ok_hit, Ql[:, 0], 0.0), np.where(ok_hit, Ql[:, 1], 0.0))
        if is_img:
            Dref_l, ok_dir = Dl.copy(), np.ones(len(idx_prev), dtype=bool)
        elif row['mirror']:
            Dref_l, ok_dir = geom.reflect(Dl, Nl), np.ones(len(idx_prev), dtype=bool)
        else:
            Dref_l, ok_dir = geom.refract(Dl, Nl, row['n_pre'], row['n_post'])
        exists = ok_hit & ok_dir
        none = (st == 0) | (ok_hit & ~ok_dir)
        stats['undecided'] += int(np.sum(st == -1))
        stats['judged'] += len(idx_prev)
        fin_k = fin[k][idx_prev]
        stats['finite'] += int(np.sum(fin_k))
        stats['failed_expected'] += int(np.sum(none))
        stats['tir_expected'] += int(np.sum(ok_hit & ~ok_dir))
        # reference says the ray exists but the record is non-finite
        bad = exists & ~fin_k
        if np.any(bad):
            j = idx_prev[bad]
            add('exists-but-nonfinite', k, j, np.ones(len(j)),
                lambda i: [P[k][i].tolist(), D[k][i].tolist()],
                lambda i: 'finite intersection and direction')
        # reference says there is no intersection / no refracted direction but the record is finite
        bad = none & fin_k
        if np.any(bad):
            j = idx_prev[bad]
            add('failed-ray-finite', k, j, np.ones(len(j)),
                lambda i: [P[k][i].tolist(), D[k][i].tolist()],
                lambda i: 'non-finite (no intersection or total internal reflection)')
        # ---- laws on the recorded values (only for finite records) --------------------------------------
        jj = idx_prev[fin_k]
        if len(jj):
            Pk, Dk = P[k][jj], D[k][jj]
            Pp, Dp = P[k - 1][jj], D[k - 1][jj]
            seg = Pk - Pp
            tlen = np.sum(seg * Dp, axis=1)
            perp = np.linalg.norm(seg - tlen[:, None] * Dp, axis=1)
            e = perp / scale
            if np.any(e > tol_alg):
                add('straight-line', k, jj, e, lambda i: P[k][i].tolist(), lambda i: 'on the line from the previous point')
            if np.any(tlen < -tol_alg * scale):
                add('forward-propagation', k, jj, -tlen / scale, lambda i: float(np.sum((P[k][i] - P[k - 1][i]) * D[k - 1][i])),
                    lambda i: '>= 0')
            Pkl, Dkl = geom.to_local(row, Pk, Dk)
            _, Dpl = geom.to_local(row, Pp, Dp)
            ind = geom.in_domain(row, Pkl[:, 0], Pkl[:, 1])
            zs = np.real(geom.sag(row, np.where(ind, Pkl[:, 0], 0.0), np.where(ind, Pkl[:, 1], 0.0)))
            e = np.where(ind, np.abs(Pkl[:, 2] - zs), np.inf)
            lim = (row.get('tol') or tol_nr) if is_nr else tol_alg * scale
            if np.any(e > lim):
                add('on-surface', k, jj, e, lambda i: geom.to_local(row, P[k][i][None])[0].tolist(),
                    lambda i: 'z_local = sag(x_local, y_local)')
                if row['shape'] == 'conic':
                    # leading coefficient of the intersection quadratic for the worst ray (classification only)
                    w = int(np.nanargmax(e))
                    out[-1]['quad_a'] = float(Dpl[w, 0] ** 2 + Dpl[w, 1] ** 2 + (1 + row.get('k', 0.0)) * Dpl[w, 2] ** 2)
            e = np.abs(np.linalg.norm(Dk, axis=1) - 1)
            if np.any(e > tol_alg):
                add('unit-direction', k, jj, e, lambda i: float(np.linalg.norm(D[k][i])), lambda i: 1.0)
            # Snell / reflection at the recorded point
            Nrec = geom.normal(row, np.where(ind, Pkl[:, 0], 0.0), np.where(ind, Pkl[:, 1], 0.0))
            cin = np.sum(Dpl * Nrec, axis=1)
            cout = np.sum(Dkl * Nrec, axis=1)
            if is_img:
                e = np.linalg.norm(Dkl - Dpl, axis=1)
                if np.any(e > tol_alg):
                    add('image-direction-unchanged', k, jj, e, lambda i: D[k][i].tolist(), lambda i: D[k - 1][i].tolist())
            elif row['mirror']:
                e = np.linalg.norm(Dkl - geom.reflect(Dpl, Nrec), axis=1)
                e = np.where(ind, e, 0.0)
                if np.any(e > tol_alg):
                    add('reflection-law', k, jj, e, lambda i: D[k][i].tolist(), lambda i: 'd - 2 (d.N) N')
            else:
                e = np.linalg.norm(row['n_pre'] * np.cross(Dpl, Nrec) - row['n_post'] * np.cross(Dkl, Nrec), axis=1)
                e = np.where(ind, e, 0.0)
                if np.any(e > tol_alg * max(row['n_pre'], row['n_post'])):
                    add('snell-law', k, jj, e, lambda i: D[k][i].tolist(), lambda i: 'n1 (d x N) = n2 (d\' x N)')
                hs = ind & (cin * cout < 0) & (np.abs(cin) > 1e-9)
                if np.any(hs):
                    add('half-space', k, jj[hs], np.ones(int(np.sum(hs))), lambda i: D[k][i].tolist(),
                        lambda i: 'same side of the surface as the incoming ray')
            # optical path
            opl_k = opl[jj] + row['n_pre'] * np.linalg.norm(seg, axis=1)
            e = np.abs(OPD[k][jj] - opl_k) / np.maximum(1.0, np.abs(opl_k))
            if np.any(~(e <= tol_alg)):
                e2 = np.where(np.isfinite(e), e, np.inf)
                add('optical-path', k, jj, e2, lambda i: float(OPD[k][i]), lambda i: 'sum n |dP|')
            opl[jj] = opl_k
        alive_new = np.zeros(nr, dtype=bool)
        alive_new[jj] = True
        # a ray that was dead must stay non-finite
        dead = ~alive & fin[k]
        dead &= ~fin[k - 1]
        if np.any(dead):
            j = np.where(dead)[0]
            add('failed-ray-revived', k, j, np.ones(len(j)), lambda i: P[k][i].tolist(), lambda i: 'non-finite')
        alive = alive_new
    return out, stats
