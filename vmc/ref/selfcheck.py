"""Cross self-tests of the reference models (no optiland involved)."""
import math

import numpy as np

from vmc.ref import geom


def run():
    # sag / normal / intersect agree with closed forms on a sphere
    row = dict(shape='sphere', R=50.0, k=0.0, z=0.0)
    x, y = np.array([3.0, -7.0]), np.array([4.0, 1.0])
    z = geom.sag(row, x, y).real
    assert np.allclose(z, 50 - np.sqrt(2500 - x * x - y * y))
    n = geom.normal(row, x, y)
    c = np.stack([-x, -y, 50 - z], axis=1) / 50.0
    assert np.allclose(n, c, atol=1e-12)
    P = np.array([[3.0, 4.0, -10.0]])
    D = np.array([[0.0, 0.0, 1.0]])
    t, st = geom.intersect(row, P, D)
    assert st[0] == 1 and abs(-10 + t[0] - geom.sag(row, 3.0, 4.0).real) < 1e-12
    # refraction obeys Snell
    d = np.array([[0.0, math.sin(0.4), math.cos(0.4)]])
    out, ok = geom.refract(d, np.array([[0.0, 0.0, 1.0]]), 1.0, 1.5)
    assert ok[0] and abs(math.sin(0.4) - 1.5 * out[0, 1]) < 1e-14 and abs(np.linalg.norm(out) - 1) < 1e-14
