"""Reference prescription model: plain rows derived from a lens *spec* (never from the library's objects).

rows(spec, index_of) -> list of rows for surfaces 0 .. n+1 with
    z        vertex position: first optical surface at 0, running sum of the thicknesses given before it;
             the object at -obj thickness
    n_pre / n_post   index in front of / behind the surface at the wavelength asked (mirror keeps the medium)
    mirror, stop, shape parameters, decentres and tilts
`index_of(matspec, prev_n)` supplies the index of a medium (so this module needs no optics library).
"""
import math

INF = float('inf')


def rows(spec, index_of, kext_of=None):
    out = []
    obj_t = spec['obj']
    n0 = index_of(spec.get('obj_mat', 'air'), 1.0)
    k0 = kext_of(spec.get('obj_mat', 'air'), 0.0) if kext_of else 0.0
    out.append(dict(shape='plane', R=INF, k=0.0, z=-obj_t, x=0.0, y=0.0, rx=0.0, ry=0.0, rz=0.0,
                    n_pre=n0, n_post=n0, k_pre=k0, k_post=k0, mirror=False, stop=False, t=obj_t,
                    aperture=None, coating=None))
    z = 0.0
    prev_n = n0
    prev_k = k0
    surfs = list(spec['surfs']) + [dict(spec.get('img') or dict(shape='plane', R=INF, k=0.0, mat='air', t=0.0))]
    for i, s in enumerate(surfs):
        is_img = (i == len(surfs) - 1)
        # the image surface is an ordinary surface whose medium is the one given for it (default air)
        mirror = (s['mat'] == 'mirror')
        n_post = index_of(s['mat'], prev_n)
        k_post = kext_of(s['mat'], prev_k) if kext_of else 0.0
        shape = s['shape']
        R = s.get('R', INF)
        if shape in ('sphere', 'conic') and not math.isfinite(R):
            shape = 'plane'
        out.append(dict(shape=shape, R=R, k=s.get('k', 0.0), coeffs=s.get('coeffs'), norm=s.get('norm'),
                        z=z, x=s.get('dx', 0.0), y=s.get('dy', 0.0), rx=s.get('rx', 0.0), ry=s.get('ry', 0.0),
                        rz=0.0, n_pre=prev_n, n_post=n_post, k_pre=prev_k, k_post=k_post, mirror=mirror,
                        stop=bool(s.get('stop')) and not is_img, t=s.get('t', 0.0),
                        aperture=s.get('aperture'), coating=s.get('coating'), tol=s.get('tol')))
        z = z + s.get('t', 0.0)
        prev_n, prev_k = n_post, k_post
    return out


def stop_index(rws):
    for i, r in enumerate(rws):
        if r['stop']:
            return i
    return None


# ----------------------------------------------------------------------------------------------------------------------
# Reference model of an *editable* prescription (used by C01): plain data + the frame conditions of every edit.
# ----------------------------------------------------------------------------------------------------------------------
class RefLens:
    """surfaces: list of dicts {R, k, coeffs (list or list of lists or None), medium (spec after the surface; 'mirror' keeps
    the medium in front), x, y, rx, ry, stop, shape}; t[k] = thickness after surface k (t[0] = object distance);
    wavelengths: list of [value, is_primary]."""

    def __init__(self, obj_t):
        self.surf = [dict(R=INF, k=0.0, coeffs=None, medium='air', x=0.0, y=0.0, rx=0.0, ry=0.0, stop=False, shape='plane')]
        self.t = [obj_t]
        self.waves = []
        self.pickups = []    # (src, attr, dst, scale, offset)
        self.solves = []     # (surface, height)

    # ---- construction in index order -------------------------------------------------------------------------------
    def add_surface(self, s):
        if s.get('stop'):
            for q in self.surf:
                q['stop'] = False
        shape = s['shape']
        R = s.get('R', INF)
        if shape in ('sphere', 'conic') and not math.isfinite(R):
            shape = 'plane'
        self.surf.append(dict(R=R, k=s.get('k', 0.0) if shape != 'plane' else 0.0, coeffs=_copy(s.get('coeffs')), medium=s['mat'],
                              x=s.get('dx', 0.0), y=s.get('dy', 0.0), rx=s.get('rx', 0.0), ry=s.get('ry', 0.0),
                              stop=bool(s.get('stop')), shape=shape))
        self.t.append(s.get('t', 0.0))

    def add_wavelength(self, value, is_primary):
        if is_primary:
            for w in self.waves:
                w[1] = False
        if not self.waves:
            is_primary = True
        self.waves.append([value, bool(is_primary)])

    # ---- derived observations ----------------------------------------------------------------------------------------
    def positions(self):
        z = [-self.t[0], 0.0]
        for k in range(1, len(self.surf) - 1):
            z.append(z[-1] + self.t[k])
        return z[:len(self.surf)]

    def media(self):
        """medium spec in front of / behind every surface (a mirror keeps the medium in front of it)."""
        pre, post = [], []
        cur = self.surf[0]['medium']
        for k, s in enumerate(self.surf):
            pre.append(cur if k > 0 else None)
            if s['medium'] != 'mirror':
                cur = s['medium']
            post.append(cur)
        return pre, post

    def stop_index(self):
        idx = [k for k, s in enumerate(self.surf) if s['stop']]
        return idx

    # ---- edits ---------------------------------------------------------------------------------------------------------
    def set_radius(self, v, k):
        self.surf[k]['R'] = v
        if self.surf[k]['shape'] == 'plane':
            # a radius edit changes the radius: the conic constant the surface carries (0 unless it was set) stays
            self.surf[k]['shape'] = 'sphere' if not self.surf[k].get('k') else 'conic'

    def set_conic(self, v, k):
        self.surf[k]['k'] = v

    def set_thickness(self, v, k):
        self.t[k] = v

    def set_index(self, v, k):
        self.surf[k]['medium'] = ['ideal', v, 0.0]

    def set_coeff(self, v, k, idx):
        c = self.surf[k]['coeffs']
        if isinstance(idx, (list, tuple)):
            i, j = idx
            while len(c) <= i:
                c.append([0.0] * len(c[0]))
            for row in c:
                while len(row) <= j:
                    row.append(0.0)
            c[i][j] = v
        else:
            c[idx] = v

    def set_tilt(self, v, k, axis):
        self.surf[k]['rx' if axis == 'x' else 'ry'] = v

    def set_decenter(self, v, k, axis):
        self.surf[k]['x' if axis == 'x' else 'y'] = v

    def apply_pickups(self):
        for (src, attr, dst, sc, off) in self.pickups:
            if attr == 'radius':
                self.set_radius(sc * self.surf[src]['R'] + off, dst)
            elif attr == 'conic':
                self.set_conic(sc * self.surf[src]['k'] + off, dst)
            elif attr == 'thickness':
                self.set_thickness(sc * self.t[src] + off, dst)


def _copy(c):
    if c is None:
        return None
    return [list(r) if isinstance(r, (list, tuple)) else r for r in c]
