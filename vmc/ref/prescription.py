"""Reference prescription model: plain rows derived from a lens *spec* (never from the library's objects).

rows(spec, index_of) -> list of rows for surfaces 0 .. n+1 with
    z        vertex position: first optical surface at 0, running sum of the thicknesses given before it;
             the object at -obj thickness
    n_pre / n_post   index in front of / behind the surface at the wavelength asked (mirror keeps the medium)
    mirror, stop, shape parameters, decentres and tilts
`index_of(matspec, prev_n)` supplies the index of a medium (so this module needs no optics library).
"""
import math

INF = float('inf')


def rows(spec, index_of, kext_of=None):
    out = []
    obj_t = spec['obj']
    n0 = index_of(spec.get('obj_mat', 'air'), 1.0)
    k0 = kext_of(spec.get('obj_mat', 'air'), 0.0) if kext_of else 0.0
    out.append(dict(shape='plane', R=INF, k=0.0, z=-obj_t, x=0.0, y=0.0, rx=0.0, ry=0.0, rz=0.0,
                    n_pre=n0, n_post=n0, k_pre=k0, k_post=k0, mirror=False, stop=False, t=obj_t,
                    aperture=None, coating=None))
    z = 0.0
    prev_n = n0
    prev_k = k0
    surfs = list(spec['surfs']) + [dict(spec.get('img') or dict(shape='plane', R=INF, k=0.0, mat='air', t=0.0))]
    for i, s in enumerate(surfs):
        is_img = (i == len(surfs) - 1)
        # the image surface is an ordinary surface whose medium is the one given for it (default air)
        mirror = (s['mat'] == 'mirror')
        n_post = index_of(s['mat'], prev_n)
        k_post = kext_of(s['mat'], prev_k) if kext_of else 0.0
        shape = s['shape']
        R = s.get('R', INF)
        if shape in ('sphere', 'conic') and not math.isfinite(R):
            shape = 'plane'
        out.append(dict(shape=shape, R=R, k=s.get('k', 0.0), coeffs=s.get('coeffs'), norm=s.get('norm'),
                        z=z, x=s.get('dx', 0.0), y=s.get('dy', 0.0), rx=s.get('rx', 0.0), ry=s.get('ry', 0.0),
                        rz=0.0, n_pre=prev_n, n_post=n_post, k_pre=prev_k, k_post=k_post, mirror=mirror,
                        stop=bool(s.get('stop')) and not is_img, t=s.get('t', 0.0),
                        aperture=s.get('aperture'), coating=s.get('coating'), tol=s.get('tol')))
        z = z + s.get('t', 0.0)
        prev_n, prev_k = n_post, k_post
    return out


def stop_index(rws):
    for i, r in enumerate(rws):
        if r['stop']:
            return i
    return None
