"""Geometric OPD from recorded ray points only (no optiland import, no use of the library's path accumulator).

opd(ray) = [W(chief) - W(ray)] / lambda,   W = n0 (P0 . d0)  (plane-wave start only)
                                              + sum_k n_{k-1} |P_k - P_{k-1}|
                                              - n_last * t_back
where t_back >= 0 is the distance from the image-surface intersection back along the ray to the reference sphere
centred on the chief ray's image intersection C with radius |C - E|, E = axial point of the paraxial exit pupil.
"""
import numpy as np


def path_to_sphere(P, D, n_before, n0, plane_wave, C, R):
    """P: (ns, nr, 3) recorded points, D: (ns, nr, 3) recorded directions, n_before[k] = index in front of surface k.
    Returns W (nr,)."""
    ns, nr, _ = P.shape
    W = np.zeros(nr)
    if plane_wave:
        W = W + n0 * np.sum(P[0] * D[0], axis=1)
    for k in range(1, ns):
        W = W + n_before[k] * np.linalg.norm(P[k] - P[k - 1], axis=1)
    # back-propagation from the image point along -d_in (direction of arrival = direction recorded at the last
    # optical surface)
    d = D[ns - 2]
    q = P[ns - 1] - C
    b = np.sum(q * d, axis=1)
    c = np.sum(q * q, axis=1) - R * R
    disc = b * b - c
    with np.errstate(invalid='ignore'):
        sq = np.sqrt(disc)
    # points P_img - t d, t >= 0:  |q - t d|^2 = R^2  ->  t = b +- sq ; take the smallest non-negative root
    t1, t2 = b - sq, b + sq
    t = np.where(t1 >= 0, t1, t2)
    return W - n_before[ns - 1] * t
