"""Reference Zernike definitions from the published rules (no optiland import).

  OSA/ANSI:  j = (n (n + 2) + m) / 2,                         j = 0, 1, ...
  Noll:      j = n (n + 1) / 2 + |m| + {0 or 1},  even j <-> m > 0 (cosine), odd j <-> m < 0,   j = 1, 2, ...
  Fringe:    j = (1 + (n + |m|) / 2)^2 - 2 |m| + (1 - sgn m) / 2,                                j = 1, 2, ...
Radial polynomial R_n^m(r) = (-1)^k r^|m| P_k^{(|m|, 0)}(1 - 2 r^2), k = (n - |m|) / 2  (Jacobi form, not the
factorial sum). Z = N R_n^|m|(r) {cos m phi | sin |m| phi}; orthonormal N = sqrt(2 (n + 1) / (1 + [m = 0])).
"""
import math

import numpy as np
from scipy.special import eval_jacobi


def osa(j):
    n = int(math.ceil((-3 + math.sqrt(9 + 8 * j)) / 2))
    m = 2 * j - n * (n + 2)
    return n, m


def noll(j):
    n = 0
    while (n + 1) * (n + 2) // 2 < j:
        n += 1
    k = j - n * (n + 1) // 2            # 1 .. n+1 within the order
    if n % 2 == 0:
        am = 2 * (k // 2)
    else:
        am = 2 * ((k - 1) // 2) + 1
    if am == 0:
        return n, 0
    return (n, am) if j % 2 == 0 else (n, -am)


def fringe(j):
    d = int(math.ceil(math.sqrt(j) - 1e-12))
    p = d * d - j
    if p % 2 == 0:
        m = p // 2
    else:
        m = -((p + 1) // 2)
    n = 2 * (d - 1) - abs(m)
    return n, m


def radial(n, m, r):
    m = abs(m)
    k = (n - m) // 2
    r = np.asarray(r, dtype=float)
    return (-1) ** k * r ** m * eval_jacobi(k, m, 0, 1 - 2 * r * r)


def norm(n, m):
    return math.sqrt(2 * (n + 1) / (1 + (m == 0)))


def zern(n, m, r, phi, normalised=True):
    N = norm(n, m) if normalised else 1.0
    az = np.cos(m * phi) if m >= 0 else np.sin(abs(m) * phi)
    return N * radial(n, m, r) * az


def disk_quadrature(nr=24, nt=64):
    """Nodes/weights with (1/pi) * integral over the unit disk of f = sum w f(r, phi); exact for the products of
    two Zernike polynomials up to radial order 14 (degree 29 in r incl. the Jacobian, trig degree 28)."""
    x, w = np.polynomial.legendre.leggauss(nr)
    r = 0.5 * (x + 1)
    wr = 0.5 * w * r
    phi = 2 * np.pi * np.arange(nt) / nt
    R, P = np.meshgrid(r, phi, indexing='ij')
    W = np.outer(wr, np.full(nt, 2 * np.pi / nt)) / np.pi
    return R.ravel(), P.ravel(), W.ravel()
