"""Reference geometry, written from the surface definitions (no optiland import).

A *row* is a dict with keys: shape ('plane','sphere','conic','asph','poly','cheb'), R, k, coeffs, norm,
x, y, z (vertex, global), rx, ry, rz (tilts).  Frame convention (documented order translate -> rx -> ry -> rz):
    global = origin + Rx(rx) Ry(ry) Rz(rz) local
"""
import math

import numpy as np


def Rx(a):
    c, s = math.cos(a), math.sin(a)
    return np.array([[1, 0, 0], [0, c, -s], [0, s, c]], dtype=float)


def Ry(a):
    c, s = math.cos(a), math.sin(a)
    return np.array([[c, 0, s], [0, 1, 0], [-s, 0, c]], dtype=float)


def Rz(a):
    c, s = math.cos(a), math.sin(a)
    return np.array([[c, -s, 0], [s, c, 0], [0, 0, 1]], dtype=float)


def frame(row):
    """(origin, M) with global = origin + M @ local."""
    M = Rx(row.get('rx', 0.0)) @ Ry(row.get('ry', 0.0)) @ Rz(row.get('rz', 0.0))
    o = np.array([row.get('x', 0.0), row.get('y', 0.0), row['z']], dtype=float)
    return o, M


def to_local(row, P, D=None):
    """P, D: (n,3) global points / directions -> local."""
    o, M = frame(row)
    Pl = (P - o) @ M          # = M^T (P - o) row-wise
    if D is None:
        return Pl
    return Pl, D @ M


def to_global(row, Pl, Dl=None):
    o, M = frame(row)
    P = Pl @ M.T + o
    if Dl is None:
        return P
    return P, Dl @ M.T


def _cheb(n, x):
    if n == 0:
        return np.ones_like(x)
    t0, t1 = np.ones_like(x), x
    for _ in range(n - 1):
        t0, t1 = t1, 2 * x * t1 - t0
    return t1


def sag(row, x, y):
    """Sag z(x, y) of the prescribed shape; works for complex arguments (complex-step derivatives)."""
    shape = row['shape']
    x = np.asarray(x)
    y = np.asarray(y)
    if shape == 'plane' or (not math.isfinite(row['R']) and shape in ('sphere', 'conic')):
        return np.zeros(np.broadcast(x, y).shape, dtype=np.result_type(x, y, float))
    R = row['R']
    k = row.get('k', 0.0)
    r2 = x * x + y * y
    if math.isfinite(R):
        c = 1.0 / R
        arg = 1 - (1 + k) * c * c * r2
        with np.errstate(invalid='ignore'):
            z = c * r2 / (1 + np.sqrt(arg))
    else:
        z = np.zeros_like(r2)
    if shape == 'asph':
        p = r2
        for ci in row.get('coeffs', []):
            z = z + ci * p
            p = p * r2
    elif shape == 'poly':
        for i, rowc in enumerate(row.get('coeffs', [])):
            for j, cij in enumerate(rowc):
                if cij:
                    z = z + cij * x ** i * y ** j
    elif shape == 'cheb':
        nx, ny = row['norm']
        for i, rowc in enumerate(row.get('coeffs', [])):
            for j, cij in enumerate(rowc):
                if cij:
                    z = z + cij * _cheb(i, x / nx) * _cheb(j, y / ny)
    return z


def in_domain(row, x, y):
    """Points where the sag formula is real (inside the conic's rim) and, for Chebyshev, inside the box."""
    ok = np.ones(np.broadcast(x, y).shape, dtype=bool)
    if row['shape'] != 'plane' and math.isfinite(row['R']):
        ok &= (1 + row.get('k', 0.0)) * (x * x + y * y) / row['R'] ** 2 < 1.0
    if row['shape'] == 'cheb':
        ok &= (np.abs(x / row['norm'][0]) <= 1) & (np.abs(y / row['norm'][1]) <= 1)
    return ok


def normal(row, x, y):
    """Unit normal (n,3) of z - sag(x,y) = 0 by complex-step differentiation of the sag (local frame),
    oriented towards +z."""
    h = 1e-30
    x = np.asarray(x, dtype=float)
    y = np.asarray(y, dtype=float)
    fx = np.imag(sag(row, x + 1j * h, y + 0j)) / h
    fy = np.imag(sag(row, x + 0j, y + 1j * h)) / h
    g = np.stack([-fx, -fy, np.ones_like(fx)], axis=1)
    return g / np.linalg.norm(g, axis=1)[:, None]


def intersect(row, P, D):
    """Reference intersection of the lines P + t D (local frame, (n,3)) with the surface z = sag(x,y):
    returns (t, status) with status 1 = valid forward intersection on the prescribed sheet, 0 = none,
    -1 = undecided (iteration did not settle; no claim either way)."""
    n = len(P)
    t = np.full(n, np.nan)
    st = np.zeros(n, dtype=int)
    shape = row['shape']
    x, y, z = P[:, 0], P[:, 1], P[:, 2]
    L, M, N = D[:, 0], D[:, 1], D[:, 2]
    if shape == 'plane' or not math.isfinite(row['R']) and shape in ('sphere', 'conic'):
        with np.errstate(all='ignore'):
            tt = -z / N
        good = np.isfinite(tt) & (tt >= 0)
        t[good] = tt[good]
        st[good] = 1
        return t, st
    c = 1.0 / row['R'] if math.isfinite(row['R']) else 0.0
    k = row.get('k', 0.0)
    a = c * (L * L + M * M + (1 + k) * N * N)
    b = 2 * (c * (x * L + y * M + (1 + k) * z * N) - N)
    cc = c * (x * x + y * y + (1 + k) * z * z) - 2 * z
    cand = []
    with np.errstate(all='ignore'):
        disc = b * b - 4 * a * cc
        sq = np.sqrt(np.where(disc >= 0, disc, np.nan))
        # numerically stable pair of roots
        q = -0.5 * (b + np.where(b >= 0, 1.0, -1.0) * sq)
        r1 = q / a
        r2 = cc / q
        lin = -cc / b
    tiny = np.abs(a) < 1e-14
    for root in (r1, r2):
        cand.append(np.where(tiny, lin, root))
    best = np.full(n, np.inf)
    for root in cand:
        with np.errstate(all='ignore'):
            px, py, pz = x + root * L, y + root * M, z + root * N
            okd = in_domain(dict(row, shape='conic'), px, py)
            zs = np.real(sag(dict(row, shape='conic'), np.where(okd, px, 0.0), np.where(okd, py, 0.0)))
            onsheet = okd & np.isfinite(root) & (root >= 0) & (np.abs(pz - zs) <= 1e-9 * (1 + np.abs(pz)))
        best = np.where(onsheet & (root < best), root, best)
    if shape in ('sphere', 'conic'):
        good = np.isfinite(best)
        t[good] = best[good]
        st[good] = 1
        return t, st
    # sag-defined surfaces: Newton on F(t) = z(t) - sag(x(t), y(t)), started from the base conic (or the
    # vertex plane when the base has no forward intersection)
    with np.errstate(all='ignore'):
        t0 = np.where(np.isfinite(best), best, -z / N)
    st[:] = -1
    tt = t0.copy()
    for _ in range(60):
        px, py, pz = x + tt * L, y + tt * M, z + tt * N
        okd = in_domain(row, px, py) & np.isfinite(tt)
        if not np.any(okd):
            break
        pxs, pys = np.where(okd, px, 0.0), np.where(okd, py, 0.0)
        F = pz - np.real(sag(row, pxs, pys))
        nrm = normal(row, pxs, pys)
        # dF/dt = grad F . D with grad F = nrm * |g|; use numeric directional derivative via nrm scaling
        g = nrm / nrm[:, 2:3]          # (-fx, -fy, 1)
        dF = g[:, 0] * L + g[:, 1] * M + g[:, 2] * N
        with np.errstate(all='ignore'):
            step = F / dF
        tt = np.where(okd, tt - step, np.nan)
        if np.nanmax(np.abs(np.where(okd, step, 0.0))) < 1e-13:
            break
    px, py, pz = x + tt * L, y + tt * M, z + tt * N
    with np.errstate(all='ignore'):
        okd = np.isfinite(tt) & in_domain(row, px, py)
        res = np.abs(pz - np.real(sag(row, np.where(okd, px, 0.0), np.where(okd, py, 0.0))))
    good = okd & (res < 1e-11 * (1 + np.abs(pz))) & (tt >= 0)
    t[good] = tt[good]
    st[good] = 1
    return t, st


def refract(D, Nrm, n1, n2):
    """Vector Snell refraction of unit directions D at unit normals Nrm. Returns (Dout, ok)."""
    cosi = np.sum(D * Nrm, axis=1)
    sgn = np.where(cosi < 0, -1.0, 1.0)
    Nn = Nrm * sgn[:, None]
    cosi = np.abs(cosi)
    mu = n1 / n2
    sin2t = mu * mu * (1 - cosi * cosi)
    ok = sin2t <= 1.0
    with np.errstate(invalid='ignore'):
        cost = np.sqrt(np.where(ok, 1 - sin2t, np.nan))
    out = mu * D + (cost - mu * cosi)[:, None] * Nn
    return out, ok


def reflect(D, Nrm):
    return D - 2 * np.sum(D * Nrm, axis=1)[:, None] * Nrm
