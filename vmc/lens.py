"""Lens specifications (plain data), the builder that realises them through optiland's public API,
the surface alphabets / configuration menus, and helpers shared by the property modules.

A *spec* is a JSON-able dict:
  {'obj': thickness of the object surface (float or inf),
   'surfs': [ {shape, R, k, coeffs, norm, mat, t, dx, dy, rx, ry, stop, aperture, coating, tol}, ... ],
   'ap': ['EPD', 6.0], 'ftype': 'angle', 'fields': [[y, vx, vy], ...], 'waves': [[w, primary], ...],
   'tele': False, 'pol': None}
Surfaces are added in index order: object (index 0), surfs (1..n), image (n+1).
"""
import copy
import itertools
import math

import numpy as np

INF = float('inf')


# --------------------------------------------------------------------------------------------------
# numeric variants (VERIF_SEED % 4): same shortcuts exercised, different numbers
# --------------------------------------------------------------------------------------------------
_VARIANTS = [
    dict(R=40.0, Rs=12.0, Rc=60.0, Ra=50.0, t=[2.0, 7.0, 25.0], n1=1.5168, n2=1.7552, dy=0.7, dx=-0.4, rx=0.05,
         ry=-0.03, epd=6.0, fno=5.0, na=0.08, ang=7.0, h=4.0, od=[150.0, 35.0]),
    dict(R=33.0, Rs=14.0, Rc=52.0, Ra=61.0, t=[3.0, 6.0, 21.0], n1=1.4875, n2=1.8052, dy=0.5, dx=-0.6, rx=0.04,
         ry=-0.05, epd=5.0, fno=6.0, na=0.07, ang=6.0, h=3.0, od=[170.0, 40.0]),
    dict(R=55.0, Rs=13.0, Rc=75.0, Ra=44.0, t=[2.5, 8.0, 30.0], n1=1.6204, n2=1.7205, dy=0.9, dx=-0.3, rx=0.06,
         ry=-0.02, epd=7.0, fno=4.5, na=0.09, ang=8.0, h=5.0, od=[120.0, 45.0]),
    dict(R=71.0, Rs=15.0, Rc=66.0, Ra=57.0, t=[1.5, 9.0, 27.0], n1=1.5317, n2=1.6727, dy=0.6, dx=-0.5, rx=0.03,
         ry=-0.04, epd=5.5, fno=5.5, na=0.06, ang=5.0, h=3.5, od=[200.0, 38.0]),
]


def V(variant):
    return _VARIANTS[variant % 4]


# --------------------------------------------------------------------------------------------------
# surface symbols
# --------------------------------------------------------------------------------------------------

def S(shape='plane', R=INF, k=0.0, coeffs=None, norm=None, mat='air', t=0.0, dx=0.0, dy=0.0, rx=0.0, ry=0.0,
      stop=False, aperture=None, coating=None, tol=None):
    d = dict(shape=shape, R=R, k=k, mat=mat, t=t)
    if coeffs is not None:
        d['coeffs'] = coeffs
    if norm is not None:
        d['norm'] = norm
    for key, val in (('dx', dx), ('dy', dy), ('rx', rx), ('ry', ry)):
        if val:
            d[key] = val
    if stop:
        d['stop'] = True
    if aperture is not None:
        d['aperture'] = aperture
    if coating is not None:
        d['coating'] = coating
    if tol is not None:
        d['tol'] = tol
    return d


def make_material(m):
    """Spec -> the value handed to add_surface(material=...)."""
    from optiland.materials import IdealMaterial, Material, AbbeMaterial
    if isinstance(m, str):
        return m  # 'air' / 'mirror' / catalogue name
    kind = m[0]
    if kind == 'ideal':
        return IdealMaterial(n=m[1], k=m[2] if len(m) > 2 else 0.0)
    if kind == 'cat':
        return Material(m[1], m[2]) if len(m) > 2 else Material(m[1])
    if kind == 'abbe':
        return AbbeMaterial(m[1], m[2])
    if kind == 'catr':        # catalogue glass searched with a required wavelength range
        return Material(m[1], min_wavelength=m[2], max_wavelength=m[3])
    raise ValueError(m)


_REF_MAT_CACHE = {}


def _ref_mat(m):
    from optiland.materials import Material
    key = ('cat', m) if isinstance(m, str) else tuple(m)
    if key not in _REF_MAT_CACHE:
        _REF_MAT_CACHE[key] = Material(m) if isinstance(m, str) else make_material(m)
    return _REF_MAT_CACHE[key]


def ref_index(m, w, prev=1.0):
    """Index of the medium a spec names, evaluated on a *fresh* material object (not the lens's), so that
    a chaining slip in the lens is not copied into the expectation. Catalogue media are trusted via C18."""
    if isinstance(m, str) and m == 'air':
        return 1.0
    if isinstance(m, str) and m == 'mirror':
        return prev
    if not isinstance(m, str) and m[0] == 'ideal':
        return float(m[1])
    return float(np.ravel(_ref_mat(m).n(w))[0])


def ref_k(m, w, prev=0.0):
    if isinstance(m, str) and m == 'air':
        return 0.0
    if isinstance(m, str) and m == 'mirror':
        return prev
    if not isinstance(m, str) and m[0] == 'ideal':
        return float(m[2]) if len(m) > 2 else 0.0
    return float(np.ravel(_ref_mat(m).k(w))[0])


def surface_kwargs(s):
    from optiland.physical_apertures import RadialAperture
    from optiland.coatings import SimpleCoating
    kw = {}
    shape = s['shape']
    if shape in ('plane', 'sphere', 'conic'):
        kw['surface_type'] = 'standard'
        if math.isfinite(s['R']):
            kw['radius'] = s['R']
        if s.get('k'):
            kw['conic'] = s['k']
    elif shape == 'asph':
        kw.update(surface_type='even_asphere', radius=s['R'], conic=s.get('k', 0.0),
                  coefficients=list(s.get('coeffs', [])))
    elif shape == 'poly':
        kw.update(surface_type='polynomial', radius=s['R'], conic=s.get('k', 0.0),
                  coefficients=[list(r) for r in s.get('coeffs', [])])
    elif shape == 'cheb':
        kw.update(surface_type='chebyshev', radius=s['R'], conic=s.get('k', 0.0),
                  coefficients=[list(r) for r in s.get('coeffs', [])], norm_x=s['norm'][0], norm_y=s['norm'][1])
    else:
        raise ValueError(shape)
    if s.get('tol') is not None:
        kw['tol'] = s['tol']
    for key in ('dx', 'dy', 'rx', 'ry'):
        if s.get(key):
            kw[key] = s[key]
    if s.get('aperture') is not None:
        a = s['aperture']
        kw['aperture'] = RadialAperture(r_max=a[0], r_min=a[1] if len(a) > 1 else 0)
    c = s.get('coating')
    if c is not None:
        if c == 'fresnel':
            kw['coating'] = 'fresnel'
        elif c[0] == 'fresnel-media':
            # a Fresnel coating between media of the user's choice (not those of the surface)
            from optiland.coatings import FresnelCoating
            from optiland.materials import IdealMaterial
            kw['coating'] = FresnelCoating(IdealMaterial(n=c[1]), IdealMaterial(n=c[2]))
        else:
            kw['coating'] = SimpleCoating(transmittance=c[1], reflectance=c[2])
    return kw


def build(spec, upto=None, image=True):
    """Realise a spec through the public API. `upto` builds only the first `upto` optical surfaces."""
    from optiland.optic import Optic
    o = Optic()
    if spec.get('reuse_after') is not None:
        # history: the Optic object held another complete lens (and was traced) before reset(); then this lens is built on it
        o = build(spec['reuse_after'])
        try:
            o.trace(0.0, 1.0, 0.5876, 3, 'hexapolar')
            o.paraxial.f2()
        except Exception:
            pass
        o.reset()
    if spec.get('obj_mat') is not None:
        o.add_surface(index=0, thickness=spec['obj'], material=make_material(spec['obj_mat']))
    else:
        o.add_surface(index=0, thickness=spec['obj'])
    surfs = spec['surfs'] if upto is None else spec['surfs'][:upto]
    shared = {}

    def mat_of(m):
        # share_materials: surfaces naming the same medium receive ONE material object (as a user does who creates the glass
        # once and passes it to several add_surface calls)
        if not spec.get('share_materials') or isinstance(m, str):
            return make_material(m)
        key = repr(m)
        if key not in shared:
            shared[key] = make_material(m)
        return shared[key]
    for i, s in enumerate(surfs, start=1):
        kw = surface_kwargs(s)
        if spec.get('share_materials') and 'coefficients' in kw:
            # ... and ONE coefficient list object for surfaces given the same coefficients
            kw['coefficients'] = shared.setdefault('coeffs:' + repr(kw['coefficients']), kw['coefficients'])
        o.add_surface(index=i, is_stop=bool(s.get('stop')), material=mat_of(s['mat']),
                      thickness=s['t'], **kw)
    if image:
        img = spec.get('img') or S()
        o.add_surface(index=len(surfs) + 1, material=make_material(img.get('mat', 'air')), **surface_kwargs(img))
    configure(o, spec)
    return o


def configure(o, spec):
    if spec.get('ap'):
        o.set_aperture(spec['ap'][0], spec['ap'][1])
    if spec.get('ftype'):
        o.set_field_type(spec['ftype'])
    for f in spec.get('fields', []):
        if isinstance(f, (int, float)):
            f = [f, 0.0, 0.0]
        o.add_field(y=f[0], vx=f[1] if len(f) > 1 else 0.0, vy=f[2] if len(f) > 2 else 0.0)
    for w in spec.get('waves', []):
        o.add_wavelength(w[0], is_primary=bool(w[1]))
    if spec.get('tele'):
        o.obj_space_telecentric = True
    if spec.get('pol'):
        from optiland.rays import PolarizationState
        p = spec['pol']
        if p == 'unpolarized':
            o.set_polarization(PolarizationState(is_polarized=False))
        else:
            o.set_polarization(PolarizationState(is_polarized=True, Ex=p[0], Ey=p[1], phase_x=p[2], phase_y=p[3]))


def spec(surfs, obj=INF, ap=('EPD', 6.0), ftype='angle', fields=(0.0, 5.0), waves=((0.5876, True),), tele=False,
         pol=None, img=None, obj_mat=None):
    d = dict(obj=obj, surfs=[copy.deepcopy(s) for s in surfs], ap=list(ap), ftype=ftype,
             fields=[[f, 0.0, 0.0] if isinstance(f, (int, float)) else list(f) for f in fields],
             waves=[list(w) for w in waves], tele=tele)
    if pol is not None:
        d['pol'] = pol
    if img is not None:
        d['img'] = img
    if obj_mat is not None:
        d['obj_mat'] = obj_mat
    return d


def with_stop(surfs, k):
    """Copy of the symbol list with the stop flag on optical surface k (0-based in the list)."""
    out = [dict(s) for s in surfs]
    for i, s in enumerate(out):
        s.pop('stop', None)
        if i == k:
            s['stop'] = True
    return out


def fix_thickness_signs(surfs):
    """Negate thicknesses after an odd number of mirrors (light travels towards -z)."""
    out = []
    sign = 1
    for s in surfs:
        s = dict(s)
        if s['mat'] == 'mirror':
            sign = -sign
        s['t'] = sign * abs(s['t'])
        out.append(s)
    return out


def words(alphabet, depth_min, depth_max):
    for d in range(depth_min, depth_max + 1):
        for w in itertools.product(range(len(alphabet)), repeat=d):
            yield w


def unjson(o):
    """Inverse of core.jsonable for the symbolic non-finite floats (used when a replay file is loaded)."""
    if isinstance(o, dict):
        return {k: unjson(v) for k, v in o.items()}
    if isinstance(o, list):
        return [unjson(v) for v in o]
    if o == 'inf':
        return INF
    if o == '-inf':
        return -INF
    if o == 'nan':
        return float('nan')
    return o


# --------------------------------------------------------------------------------------------------
# standard observation fans
# --------------------------------------------------------------------------------------------------

def fan25():
    """13-point cross + 8-point ring at 0.7 + 4 skew points: includes (0,0), the rim, and skew rays."""
    pts = [(0.0, 0.0)]
    for r in (0.35, 0.7, 1.0):
        pts += [(r, 0.0), (-r, 0.0), (0.0, r), (0.0, -r)]
    for i in range(8):
        a = 2 * math.pi * (i + 0.5) / 8
        pts.append((0.7 * math.cos(a), 0.7 * math.sin(a)))
    pts += [(0.3, 0.9), (-0.55, 0.25), (0.6, -0.6), (-0.2, -0.85)]
    P = np.array(pts)
    return P[:, 0].copy(), P[:, 1].copy()


def sample_lenses():
    """name -> constructor of the bundled sample designs."""
    import inspect
    from optiland.samples import objectives, simple, telescopes, eyepieces, infrared, lithography, microscopes
    from optiland.optic import Optic
    out = {}
    for mod in (simple, objectives, telescopes, eyepieces, infrared, lithography, microscopes):
        for name, cls in inspect.getmembers(mod, inspect.isclass):
            if issubclass(cls, Optic) and cls is not Optic and cls.__module__ == mod.__name__:
                out[f'{mod.__name__.split(".")[-1]}.{name}'] = cls
    return dict(sorted(out.items()))
