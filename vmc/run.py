"""Runner:  python -m vmc.run CNN [--tier quick|thorough] [--replay file] [--selftest]"""
import argparse
import importlib
import json
import multiprocessing as mp
import os
import sys
import time
import traceback

from vmc import core
from vmc.core import Part, jsonable, digest

_MOD = None


def _load(pid):
    return importlib.import_module(f'vmc.props.{pid.lower()}')


def _work(unit):
    """Pool worker: explore one unit. Library exceptions that escape the property's own guards are turned
    into violations of clause 'unexpected-exception' (valid calls must succeed), never swallowed."""
    import numpy as np
    np.random.seed(12345)
    try:
        part = _MOD.run_unit(unit)
    except Exception as exc:  # noqa
        part = Part(unit)
        site = core.lib_site(exc)
        if site == 'harness':
            part.counters['HARNESS_ERROR'] = 1
            part.errors.append(f'unit={unit!r}\n' + traceback.format_exc()[-2500:])
        else:
            part.violation(_MOD.PID, 'unexpected-exception', site, type(exc).__name__,
                           {'trace': traceback.format_exc()[-1200:]}, observed=core.exc_text(exc),
                           expected='call succeeds')
        part.evals += 1
    return part


def main(argv=None):
    global _MOD
    ap = argparse.ArgumentParser()
    ap.add_argument('pid')
    ap.add_argument('--tier', default=os.environ.get('VERIF_TIER', 'quick'), choices=['quick', 'thorough'])
    ap.add_argument('--replay', default=None)
    ap.add_argument('--workers', type=int, default=int(os.environ.get('VERIF_WORKERS', '16')))
    ap.add_argument('--limit', type=int, default=0, help='debug: only the first N units')
    args = ap.parse_args(argv)
    pid = args.pid.upper()
    seed = int(os.environ.get('VERIF_SEED', '0') or 0)
    variant = seed % 4
    _MOD = _load(pid)

    if args.replay:
        return replay(pid, args.replay)

    t0 = time.time()
    variants = [0, 1, 2, 3] if (args.tier == 'thorough' and getattr(_MOD, 'ALL_VARIANTS_IN_THOROUGH', True)) \
        else [variant]
    if args.tier == 'thorough' and getattr(_MOD, 'THOROUGH_VARIANTS', None):
        variants = [(variant + i) % 4 for i in range(_MOD.THOROUGH_VARIANTS)]
    units = []
    for v in variants:
        units += _MOD.units(args.tier, v)
    if args.limit:
        units = units[:args.limit]
    total = Part()
    nunits = len(units)
    # units that themselves start processes (scipy's worker pool) cannot run inside daemonic pool workers
    main_units = [u for u in units if isinstance(u, dict) and u.get('main_process')]
    pool_units = [u for u in units if not (isinstance(u, dict) and u.get('main_process'))]
    if args.workers > 1 and len(pool_units) > 1:
        ctx = mp.get_context('fork')
        chunk = max(1, min(8, len(pool_units) // (args.workers * 8)))
        with ctx.Pool(args.workers) as pool:
            for part in pool.imap_unordered(_work, pool_units, chunksize=chunk):
                total.merge(part)
    else:
        for u in pool_units:
            total.merge(_work(u))
    for u in main_units:
        total.merge(_work(u))

    if total.counters.get('HARNESS_ERROR'):
        print(f'HARNESS-ERROR property={pid}: exception inside the checking code', file=sys.stderr)
        for s in total.errors[:2]:
            print(s, file=sys.stderr)
        return 2

    # ---- determinism guard: replay one witness per signature from scratch ----------------------------
    sigs = {}
    for v in total.violations:
        sigs.setdefault(v['signature'], v)
    for sig, v in sigs.items():
        again = _work(v['unit'])
        if sig not in again.sigcount:
            print(f'HARNESS-ERROR property={pid}: violation {sig} did not reproduce on replay', file=sys.stderr)
            return 2

    # ---- classify against known findings ---------------------------------------------------------------
    known = [k for k in core.load_known() if k['property'] == pid]
    known_sigs = {k['signature']: k for k in known if k['status'] == 'known'}
    new = {s: v for s, v in sigs.items() if s not in known_sigs}
    seen_known = {s: v for s, v in sigs.items() if s in known_sigs}
    outdir = os.environ.get('VERIF_OUT_DIR', core.VERIF)   # scratch runs (seed sweeps) write elsewhere
    rdir = os.path.join(outdir, 'replays', pid)
    os.makedirs(rdir, exist_ok=True)
    lines = []
    for s, k in known_sigs.items():
        if s in seen_known:
            lines.append(f"KNOWN-FINDING: property={pid} {k['what']} [{s}] witnesses={total.sigcount[s]}")
    # nontriviality guards declared by the property: a run that found nothing *and* explored (almost) nothing
    # non-trivial is a harness error, not a pass
    guard = getattr(_MOD, 'nontrivial_guard', None)
    if guard and not new:
        msg = guard(total, args.tier)
        if msg:
            print(f'HARNESS-ERROR property={pid}: vacuous exploration: {msg}', file=sys.stderr)
            return 2
    rc = 0
    for s, v in new.items():
        path = os.path.join(rdir, digest(s, 16) + '.json')
        with open(path, 'w') as f:
            json.dump({'property': pid, 'signature': s, 'tier': args.tier, 'seed': seed,
                       'count': total.sigcount[s], 'violation': v}, f, indent=1)
        lines.append(f'VIOLATION property={pid} replay={path}')
        lines.append(f"  clause={v['clause']} site={v['site']} condition={v['condition']} "
                     f"count={total.sigcount[s]} observed={str(v['observed'])[:160]} "
                     f"expected={str(v['expected'])[:160]}")
        rc = 1

    wall = time.time() - t0
    meta = _MOD.META
    cov = {
        'states': total.states,
        'transitions': total.transitions,
        'traces_validated_against_impl': total.transitions,
        'evaluations': total.evals,
        'distinct_nontrivial': len(total.outcomes),
        'rule': meta['rule'],
        'samples': total.samples[:6] or [{'unit': units[0] if units else None}],
        'exhaustive': bool(meta.get('exhaustive', True)) and not total.caps,
        'bound': meta.get('bounds', {}).get(args.tier, ''),
        'work_units': nunits,
        'variants': variants,
        'caps_hit': total.caps,
        'tolerances': meta.get('tolerances', {}),
        'per_clause': dict(sorted(total.counters.items())),
        'violation_signatures': {s: total.sigcount[s] for s in sigs},
        'known_findings_witnessed': sorted(seen_known),
        'known_not_reproduced': sorted(set(known_sigs) - set(seen_known)),
        'repo': core.REPO,
    }
    ev = {'property_id': pid, 'tier': args.tier, 'seed': seed, 'level': 'model_checking', 'coverage': cov,
          'assumptions': meta.get('assumptions', []), 'wall_s': round(wall, 2), 'violations': len(new)}
    os.makedirs(os.path.join(outdir, 'evidence'), exist_ok=True)
    with open(os.path.join(outdir, 'evidence', f'{pid}.json'), 'w') as f:
        json.dump(jsonable(ev), f, indent=1)
    for ln in lines:
        print(ln)
    print(f'{pid} tier={args.tier} seed={seed} units={nunits} states={total.states} '
          f'transitions={total.transitions} evals={total.evals} outcomes={len(total.outcomes)} '
          f'new_violations={len(new)} known={len(seen_known)} wall={wall:.1f}s')
    return rc


def replay(pid, path):
    with open(path) as f:
        rec = json.load(f)
    v = rec['violation']
    part = _work(v['unit'])
    hit = [w for w in part.violations if w['signature'] == rec['signature']]
    print(json.dumps({'unit': v['unit'], 'signature': rec['signature']}, indent=1)[:3000])
    if hit:
        w = hit[0]
        print('REPRODUCED  observed=', str(w['observed'])[:400])
        print('            expected=', str(w['expected'])[:400], ' tol=', w['tol'])
        print('            detail  =', json.dumps(w['detail'])[:1500])
        print(f'VIOLATION property={pid} replay={path}')
        return 1
    print('not reproduced on this tree')
    return 0


if __name__ == '__main__':
    sys.exit(main())
