"""Canonical, hashable rendering of the property-relevant state of an Optic (prescription, fields, wavelengths,
aperture, polarization, pickups, solves). Numpy scalars and one-element arrays are normalised to Python floats;
the last-trace records of the surfaces are *not* part of it."""
import math

import numpy as np


def num(v):
    if v is None or isinstance(v, (str, bool)):
        return v
    a = np.asarray(v)
    if a.dtype == object:
        return repr(v)
    if a.size == 1:
        f = float(a.ravel()[0])
        if math.isnan(f):
            return 'nan'
        if math.isinf(f):
            return 'inf' if f > 0 else '-inf'
        return float('%.12g' % f)
    return [num(x) for x in a.ravel().tolist()]


def material(m):
    if m is None:
        return None
    d = dict(type=type(m).__name__)
    for key in ('index', 'absorp', 'abbe', 'name', 'reference', 'filename', 'robust', 'min_wavelength', 'max_wavelength'):
        if hasattr(m, key):
            val = getattr(m, key)
            if callable(val):
                continue
            d[key] = num(val) if not isinstance(val, str) else val
    return d


def surface(s):
    g = s.geometry
    cs = g.cs
    d = dict(cls=type(s).__name__, geom=type(g).__name__, radius=num(getattr(g, 'radius', None)), k=num(getattr(g, 'k', 0.0)),
             c=num(getattr(g, 'c', None)) if hasattr(g, 'c') else None,
             norm=[num(getattr(g, 'norm_x', None)), num(getattr(g, 'norm_y', None))] if hasattr(g, 'norm_x') else None,
             tol=num(getattr(g, 'tol', None)), max_iter=num(getattr(g, 'max_iter', None)),
             cs=[num(cs.x), num(cs.y), num(cs.z), num(cs.rx), num(cs.ry), num(cs.rz)],
             stop=bool(s.is_stop), refl=bool(s.is_reflective), pre=material(s.material_pre), post=material(s.material_post),
             aperture=(None if s.aperture is None else [type(s.aperture).__name__, num(s.aperture.r_max), num(s.aperture.r_min)]),
             coating=(None if s.coating is None else [type(s.coating).__name__, num(getattr(s.coating, 'transmittance', None)),
                                                       num(getattr(s.coating, 'reflectance', None))]),
             bsdf=(None if s.bsdf is None else type(s.bsdf).__name__))
    return d


def optic(o, semi_apertures=False):
    d = dict(surfaces=[surface(s) for s in o.surface_group.surfaces],
             aperture=None if o.aperture is None else [o.aperture.ap_type, num(o.aperture.value)],
             field_type=o.field_type,
             fields=[[num(f.x), num(f.y), num(f.vx), num(f.vy)] for f in o.fields.fields],
             waves=[[num(w.value), bool(w.is_primary)] for w in o.wavelengths.wavelengths],
             telecentric=bool(o.obj_space_telecentric),
             polarization=(o.polarization if isinstance(o.polarization, str) else
                           [bool(o.polarization.is_polarized), num(o.polarization.Ex), num(o.polarization.Ey),
                            num(o.polarization.phase_x), num(o.polarization.phase_y)]),
             pickups=len(o.pickups.pickups) if hasattr(o.pickups, 'pickups') else None,
             solves=len(o.solves.solves) if hasattr(o.solves, 'solves') else None)
    if semi_apertures:
        d['semi'] = [num(s.semi_aperture) for s in o.surface_group.surfaces]
    return d


def diff(a, b, path=''):
    """First difference between two canonical renderings (for messages)."""
    if type(a) != type(b):
        return f'{path}: {a!r} != {b!r}'
    if isinstance(a, dict):
        for k in a:
            if k not in b:
                return f'{path}.{k}: missing'
            r = diff(a[k], b[k], f'{path}.{k}')
            if r:
                return r
        return None
    if isinstance(a, list):
        if len(a) != len(b):
            return f'{path}: length {len(a)} != {len(b)}'
        for i, (x, y) in enumerate(zip(a, b)):
            r = diff(x, y, f'{path}[{i}]')
            if r:
                return r
        return None
    return None if a == b else f'{path}: {a!r} != {b!r}'
