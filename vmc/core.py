"""Shared plumbing: violations, work-unit results, merging, evidence, known findings.

A property module (vmc/props/cNN.py) provides
    PID            'C07'
    META           dict(rule=..., assumptions=[...], tolerances={...}, bounds={tier: text}, exhaustive=bool)
    units(tier, variant) -> list of JSON-able work units (each one a root of a sub-tree of the exploration)
    run_unit(unit)       -> Part   (explores that sub-tree on the real library, evaluates the oracle)
The runner (vmc/run.py) maps run_unit over all units on a fork pool, merges the Parts, replays one witness
per violation signature from scratch (determinism guard), matches signatures against known_findings.json,
writes evidence and replay files, prints KNOWN-FINDING / VIOLATION lines and sets the exit status.
"""
import hashlib
import json
import math
import os
import sys
import traceback

import numpy as np

VERIF = os.path.dirname(os.path.dirname(os.path.abspath(__file__)))
REPO = os.environ.get('VERIF_REPO', '/repo')

MAX_WITNESSES_PER_SIG = 3


def jsonable(o):
    """Render numpy / tuples / non-finite floats as plain JSON-compatible values."""
    if isinstance(o, dict):
        return {str(k): jsonable(v) for k, v in o.items()}
    if isinstance(o, (list, tuple, set)):
        return [jsonable(v) for v in o]
    if isinstance(o, np.ndarray):
        return jsonable(o.tolist())
    if isinstance(o, (np.floating, float)):
        f = float(o)
        if math.isnan(f):
            return 'nan'
        if math.isinf(f):
            return 'inf' if f > 0 else '-inf'
        return f
    if isinstance(o, (np.integer,)):
        return int(o)
    if isinstance(o, (np.bool_,)):
        return bool(o)
    if isinstance(o, complex):
        return [o.real, o.imag]
    if isinstance(o, (str, int, bool)) or o is None:
        return o
    return repr(o)


def digest(obj, n=12):
    return hashlib.sha1(json.dumps(jsonable(obj), sort_keys=True).encode()).hexdigest()[:n]


class Part:
    """Result of exploring one work unit."""

    def __init__(self, unit=None):
        self.unit = unit
        self.violations = []      # list of dict
        self.sigcount = {}        # signature -> count (all witnesses, also those not kept)
        self.states = 0
        self.transitions = 0
        self.evals = 0
        self.outcomes = set()     # short digests of distinct non-trivial observed outcomes
        self.samples = []
        self.counters = {}        # clause / bookkeeping counters
        self.caps = []            # caps hit (must stay empty for an exhaustive claim)
        self.errors = []          # tracebacks of exceptions inside the checking code (harness errors)

    # -- bookkeeping ---------------------------------------------------------------------------
    def count(self, key, n=1):
        self.counters[key] = self.counters.get(key, 0) + n

    def outcome(self, *vals):
        """Register an observed outcome (rounded) so vacuous explorations are visible."""
        self.outcomes.add(digest([round_sig(v) for v in vals], 10))

    def sample(self, s, limit=2):
        if len(self.samples) < limit:
            self.samples.append(jsonable(s))

    def violation(self, prop, clause, site, condition, detail, observed=None, expected=None, tol=None):
        sig = f'{prop}|{clause}|{site}|{condition}'
        self.sigcount[sig] = self.sigcount.get(sig, 0) + 1
        if self.sigcount[sig] <= MAX_WITNESSES_PER_SIG:
            self.violations.append(jsonable({
                'property': prop, 'clause': clause, 'site': site, 'condition': condition,
                'signature': sig, 'unit': self.unit, 'detail': detail,
                'observed': observed, 'expected': expected, 'tol': tol}))
        return sig

    def merge(self, other):
        for v in other.violations:
            sig = v['signature']
            kept = sum(1 for w in self.violations if w['signature'] == sig)
            if kept < MAX_WITNESSES_PER_SIG:
                self.violations.append(v)
        for s, c in other.sigcount.items():
            self.sigcount[s] = self.sigcount.get(s, 0) + c
        self.states += other.states
        self.transitions += other.transitions
        self.evals += other.evals
        self.outcomes |= other.outcomes
        for s in other.samples:
            if len(self.samples) < 6:
                self.samples.append(s)
        for k, c in other.counters.items():
            self.counters[k] = self.counters.get(k, 0) + c
        self.caps += other.caps
        if len(self.errors) < 3:
            self.errors += other.errors


def round_sig(v, sig=9):
    """Round to `sig` significant digits, recursively; NaN/inf kept symbolic."""
    if isinstance(v, (list, tuple)):
        return [round_sig(x, sig) for x in v]
    if isinstance(v, np.ndarray):
        return [round_sig(x, sig) for x in v.ravel().tolist()]
    if isinstance(v, (float, np.floating)):
        f = float(v)
        if not math.isfinite(f):
            return repr(f)
        if f == 0:
            return 0.0
        return float(f'%.{sig}g' % f)
    if isinstance(v, (np.integer,)):
        return int(v)
    return v


def lib_site(exc):
    """Innermost optiland frame of an exception: 'file.py:function'."""
    tb = traceback.extract_tb(exc.__traceback__)
    site = None
    for fr in tb:
        if '/optiland/' in fr.filename:
            site = f"{os.path.basename(fr.filename)}:{fr.name}"
    return site or 'harness'


def exc_text(exc):
    return f'{type(exc).__name__}: {str(exc)[:200]}'


# ------------------------------------------------------------------------------------------------
# known findings
# ------------------------------------------------------------------------------------------------

def load_known():
    path = os.path.join(VERIF, 'known_findings.json')
    if not os.path.exists(path):
        return []
    with open(path) as f:
        return json.load(f)['findings']


def close(a, b, tol, scale=None):
    """|a-b| <= tol*max(1,|a|,|b|) elementwise, NaN-unequal. Returns bool."""
    a = np.asarray(a, dtype=float)
    b = np.asarray(b, dtype=float)
    if a.shape != b.shape:
        try:
            a, b = np.broadcast_arrays(a, b)
        except ValueError:
            return False
    if scale is None:
        scale = np.maximum(1.0, np.maximum(np.abs(a), np.abs(b)))
    with np.errstate(invalid='ignore'):
        ok = np.abs(a - b) <= tol * scale
    return bool(np.all(ok))


def relerr(a, b):
    a = np.asarray(a, dtype=float)
    b = np.asarray(b, dtype=float)
    with np.errstate(invalid='ignore'):
        e = np.abs(a - b) / np.maximum(1.0, np.maximum(np.abs(a), np.abs(b)))
    if e.size == 0:
        return 0.0
    if np.any(np.isnan(e)):
        return float('nan')
    return float(np.max(e))
