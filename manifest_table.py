# one entry per claimed property; consumed by tools_manifest.py
CHECKS['C02'] = dict(
    design_ref='DESIGN.md section 3, C02',
    technique='bounded-exhaustive construction LTS over a surface alphabet (all words to depth 3) driven through the real add_surface/trace API, per-surface transition oracle = independent vector-Snell/sag reference model',
    text='Every lens that is a word of length <=3 over a 14-symbol surface alphabet (all six shape classes, refracting/reflecting, decentred/tilted, ideal/catalogue media; 4 numeric variants), plus the 24 sample designs, is built through the public API and traced (25-point fans x 4 fields x 2 wavelengths, steep 35 degree fields and every named distribution on short words). For every surface transition of every ray the recorded point/direction/path is compared with an independent reference step (own frame matrices, own sag formulas, complex-step normals, vector Snell, forward-intersection existence). Complete within the stated bounds; says nothing about values between the menu points.',
    note='Trusted: reference geometry in vmc/ref (frame convention global = o + Rx Ry Rz local), catalogue indices (checked by C18), numpy. Sample designs take their rows from the built lens (no independent spec).')

CHECKS['C04'] = dict(
    design_ref='DESIGN.md section 3, C04',
    technique='bounded-exhaustive construction LTS (words over an axially symmetric surface alphabet x every stop position) x full configuration menu, every paraxial query compared with an independent signed-index y-nu / ABCD reference model',
    text='Every word of length <=2 over 10 symmetric symbols (+ length 3 over 6; thorough: <=3 and 4) with the stop on every surface, crossed with 14 valid (object distance, aperture kind, field kind) configurations, plus the 24 samples: f1,f2,F1,F2,P1,P2,N1,N2,EPL,EPD,XPL,XPD,FNO,magnification, marginal and chief ray arrays, invariant() against the reference; Lagrange invariant constant over the returned arrays; linearity of _trace_generic on a basis. Complete within these bounds.',
    note='Trusted: vmc/ref/abcd.py (signed indices, f2=-1/u_k, F1 from first vertex, F2/XPL from image), sign convention of the paraxial chief ray for height fields (object point at -field). Exactly afocal / telecentric-pupil states are skipped and counted.')

CHECKS['C03'] = dict(
    design_ref='DESIGN.md section 3, C03',
    technique='bounded-exhaustive construction LTS x the full configuration product (aperture x field type x object distance x telecentric, valid and invalid), launch-state oracle from the reference entrance pupil; finite enumeration of distributions x counts',
    text='Every word of length <=2 (thorough <=3) over 6 symmetric symbols with the stop on every surface, crossed with all 36 configurations and two field lists (one whose largest field is negative): for 6 normalised fields x 25 pupil points the generated origin/direction/intensity/path/wavelength is compared with the definition (start at the field point or field angle, aimed at (Px,Py) EPD/2 on the reference entrance pupil plane, telecentric chief ray parallel with rim sine = NA) and with the object-surface record of a trace; the 14 unrepresentable combinations must raise ValueError from generate_rays and from trace. All 11 named distributions x counts 1..7 against closed-form counts and the unit disk; vignetting menu {0,0.2,0.5}^2: pointwise shrink of the aim points.',
    note='Trusted: vmc/ref/abcd.py pupils; sign convention positive field angle = +y travelling rays. Fields along y only; object space air.')
